"""Recording plug-ins and the script runner that drives the real Calibrator along a script and records
the event trace validated by CalibrationTrace.tla.

No source hook is used: black-it announces every step by calling out to the plug-ins supplied here
(samplers, model, loss, agent).  Two class-level wrappers are installed from the outside while a script
runs (BaseSampler.sample, Calibrator.create_checkpoint) so that *any* sampler object - scripted or
built-in - and every checkpoint written by calibrate() is observed.
"""
from __future__ import annotations

import json
import os
import shutil
import tempfile
import threading
from pathlib import Path

import numpy as np

from black_it.calibrator import Calibrator
from black_it.loss_functions.base import BaseLoss
from black_it.samplers.base import BaseSampler
from black_it.schedulers.rl.agents.base import Agent

from .common import quiet

N_SIM = 8
SPACE_BOUNDS = [[0, 0, 0, 0], [255, 255, 255, 1023]]
SPACE_PREC = [1, 1, 1, 1]
# ids are order-preserving: TLC compares losses as integers
EXTREME = {-900001: -1e39, 900001: 3.5e38, 900002: 1e39, 900003: 1e308, 900004: float("inf")}


class Injected(RuntimeError):
    """The exception the harness makes a plug-in raise."""


HANG_S = float(__import__("os").environ.get("VERIF_HANG_S", "180"))


class Hang(BaseException):
    """raised in the main thread by the watchdog when the call under test blocks"""


class _watchdog:  # noqa: N801
    """interrupts a blocked call: SIGALRM every HANG_S seconds while the call (and its unwinding) lasts; main thread only"""

    def __init__(self, seconds: float | None = None) -> None:
        self.seconds = seconds or HANG_S

    def __enter__(self):
        import signal
        import threading

        self.on = threading.current_thread() is threading.main_thread()
        if self.on:
            def handler(signum, frame):  # noqa: ARG001
                raise Hang

            import time

            self.old = signal.signal(signal.SIGALRM, handler)
            self.t0 = time.monotonic()
            self.outer = signal.setitimer(signal.ITIMER_REAL, self.seconds, self.seconds)     # (an enclosing timer, if any, is resumed on exit)
        return self

    def __exit__(self, *exc):
        import signal
        import time

        if self.on:
            signal.setitimer(signal.ITIMER_REAL, 0, 0)
            signal.signal(signal.SIGALRM, self.old)
            if self.outer[0] > 0:
                signal.setitimer(signal.ITIMER_REAL, max(self.outer[0] - (time.monotonic() - self.t0), 0.01), self.outer[1])
        return False


class InjectedInterrupt(BaseException):
    """... or an interrupt that is not an Exception (what Ctrl-C / SystemExit inside a plug-in looks like)."""


class InjectedValueError(ValueError):
    """a plug-in failing with a ValueError (numpy shape / domain errors are of this type)"""


class InjectedKeyError(KeyError):
    pass


INJECTED_TYPES = (Injected, InjectedValueError, InjectedKeyError)


def injected(at: str):
    rec = REC
    if rec is not None and rec.script.get("fault_base"):
        return InjectedInterrupt(at)
    kind = (rec.script.get("fault_type") if rec is not None else None) or "runtime"
    return {"runtime": Injected, "value": InjectedValueError, "key": InjectedKeyError}[kind](at)


# ------------------------------------------------------------------------------------------------
# recorder (module global: plug-in objects are pickled/unpickled by black-it, the recorder is not)
# ------------------------------------------------------------------------------------------------
class Recorder:
    def __init__(self, script: dict) -> None:
        self.script = script
        cfg = script["cfg"]
        self.cfg = cfg
        self.events: list[dict] = []
        self.enabled = True
        self.in_call = False
        self.cal = None
        self.pids: dict[tuple, int] = {}
        self.seed = cfg["seed"]
        draws = np.random.default_rng(self.seed).integers(2**32 - 1, size=6000)
        self.draws = [int(x) for x in draws]
        self.seedpos = {}
        for i, x in enumerate(self.draws):
            self.seedpos.setdefault(x, i + 1)
        g = np.random.default_rng(self.seed)
        self.genpos = {}
        for i in range(3000):
            self.genpos[json.dumps(g.bit_generator.state, sort_keys=True, default=int)] = i
            g.integers(2**32 - 1)
        self.prec = cfg.get("prec", 3)
        self.lossval = {}
        self.lossid = {}
        self.counts = {"sampler": 0, "model": 0, "loss": 0}
        self.loss_ok = 0
        self.faults = {(f["at"], f["index"]) for f in script.get("faults", [])}
        self.agent_log: list = []      # ("policy", session, action) / ("learn", session, action, reward)
        self.session = 0
        self.agent_samples: dict[int, int] = {}   # session -> number of agent-driven batches started

    # -- projections ---------------------------------------------------------------------------
    def pid(self, vec) -> int:
        key = tuple(float(x) for x in np.asarray(vec).ravel())
        if key not in self.pids:
            self.pids[key] = len(self.pids) + 1
        return self.pids[key]

    def loss_float(self, a: int) -> float:
        if a in EXTREME:
            v = EXTREME[a]
        else:
            v = a * 10.0 ** -(self.prec + 1)
        self.lossval[a] = v
        self.lossid[float(v)] = a
        return v

    def loss_id(self, v) -> int:
        return self.lossid.get(float(v), -77777)

    def log(self, ev: dict) -> None:
        if self.enabled:
            self.events.append(ev)

    def fault_now(self, at: str) -> bool:
        self.counts[at] += 1
        return (at, self.counts[at]) in self.faults


REC: Recorder | None = None


# ------------------------------------------------------------------------------------------------
# scripted plug-ins
# ------------------------------------------------------------------------------------------------
class _Scripted(BaseSampler):
    """Row j of the k-th batch of sampler object sid is the grid point (sid, k, j, r) with r drawn from the
    sampler's own generator: the point itself reveals who produced it, in which call, from which stream."""

    _vsid = 0
    _vk = 0

    def _set_random_state(self, random_state):
        """like the built-in sequence samplers: a seed reset also resets the cursor"""
        super()._set_random_state(random_state)
        self._vk = 0

    def sample_batch(self, batch_size, search_space, existing_points, existing_losses):  # noqa: ARG002
        k = self._vk
        self._vk = k + 1
        rows = [[self._vsid, k, j, int(self.random_generator.integers(0, 1024))] for j in range(batch_size)]
        return np.array(rows, dtype=float)


_CLASSES: dict[str, type] = {}


def sampler_class(name: str) -> type:
    """A distinct, picklable BaseSampler subclass per class label."""
    if name not in _CLASSES:
        cls = type(name, (_Scripted,), {"__module__": __name__, "__qualname__": name})
        globals()[name] = cls
        _CLASSES[name] = cls
    return _CLASSES[name]


_SID = [0]


BUILTIN = {
    "HaltonSampler": ("black_it.samplers.halton", {}),
    "RSequenceSampler": ("black_it.samplers.r_sequence", {}),
    "RandomUniformSampler": ("black_it.samplers.random_uniform", {}),
    "BestBatchSampler": ("black_it.samplers.best_batch", {}),
    "ParticleSwarmSampler": ("black_it.samplers.particle_swarm", {}),
    "CORSSampler": ("black_it.samplers.cors", {"max_samples": 40}),
    "RandomForestSampler": ("black_it.samplers.random_forest", {"candidate_pool_size": 60, "n_estimators": 8}),
    "XGBoostSampler": ("black_it.samplers.xgboost", {"candidate_pool_size": 60, "n_estimators": 4}),
    "GaussianProcessSampler": ("black_it.samplers.gaussian_process", {"candidate_pool_size": 40}),
}


def make_sampler(desc: dict, ctor_seed: int):
    if desc["cls"] in BUILTIN:
        import importlib

        mod, kw = BUILTIN[desc["cls"]]
        cls = getattr(importlib.import_module(mod), desc["cls"])
        s = cls(batch_size=desc["bs"], random_state=ctor_seed, **kw)
    else:
        s = sampler_class(desc["cls"])(batch_size=desc["bs"], random_state=ctor_seed)
    _SID[0] += 1
    s._vsid = _SID[0] % 256
    s._vk = 0
    s._vctor = ctor_seed
    return s


MODEL_D = [1]      # number of columns of the simulated series (set per script; the model is called with (theta, N, seed) only)


def model_series(theta, N, seed, D):  # noqa: N803
    """the series the scripted model returns: column 0 encodes (vector, seed, N), further columns are different functions of
    the same data, so that any transposition / mis-reshape of the (batch, member, N, D) block is visible"""
    th = [float(x) for x in theta][:4] + [0.0] * (4 - len(theta))
    col = th + [float(seed & 0xFFFF), float(seed >> 16), float(N), 77.0]
    col = np.array((col + [float(k) for k in range(N)])[:N], dtype=float)
    cols = [col]
    for d in range(1, D):
        cols.append(np.array([col[(t * 3 + d) % N] * (d + 1) + t for t in range(N)], dtype=float))
    return np.stack(cols, axis=1)


def _model(theta, N, seed, D):  # noqa: N803
    """Series whose entries encode (vector, N, seed): the stored series reveal which run produced them."""
    rec = REC
    seed = int(seed)
    if rec is not None and rec.enabled:
        if rec.fault_now("model"):
            rec.log({"e": "fault", "at": "model"})
            raise injected("model")
        rec.log({"e": "model", "pid": rec.pid(theta), "N": int(N), "sp": rec.seedpos.get(seed, -1)})
    return model_series(theta, N, seed, D)


# one importable function per number of columns (joblib workers and restore_from_checkpoint need a plain named function)
def scripted_model(theta, N, seed):  # noqa: N803
    return _model(theta, N, seed, 1)


def scripted_model_2(theta, N, seed):  # noqa: N803
    return _model(theta, N, seed, 2)


def scripted_model_3(theta, N, seed):  # noqa: N803
    return _model(theta, N, seed, 3)


def scripted_model_slow(theta, N, seed):  # noqa: N803
    """run time depends on the parameters: the first rows of a batch finish last when several workers run the batch"""
    import time

    if int(theta[2]) % 2 == 0:
        time.sleep(0.08)
    return _model(theta, N, seed, 1)


def scripted_model_scribble(theta, N, seed):  # noqa: N803
    """a model that uses its parameter argument as scratch space (legal for a user function: the argument is its own)"""
    out = _model(theta, N, seed, 1)
    try:
        theta[...] = -1.0 - np.abs(theta)
    except (ValueError, TypeError):
        pass        # a read-only buffer / not an array
    return out


MODELS = {1: scripted_model, 2: scripted_model_2, 3: scripted_model_3, "slow": scripted_model_slow, "scribble": scripted_model_scribble}


def current_model():
    return MODELS["slow"] if SLOW[0] else MODELS["scribble"] if SCRIBBLE[0] else MODELS[MODEL_D[0]]


SLOW = [False]
SCRIBBLE = [False]


def decode_series(series):
    """(vector, seed) a stored (N, D) series was simulated with - or (None, -1) when it is not exactly what the model returns for them"""
    series = np.asarray(series, dtype=float)
    if series.ndim == 1:
        series = series.reshape(-1, 1)
    col = series[:, 0]
    th = tuple(float(x) for x in col[:4])
    seed = int(col[4]) + (int(col[5]) << 16)
    want = model_series(th, series.shape[0], seed, series.shape[1])
    if want.shape != series.shape or not np.array_equal(want, series):
        return (-1.0, -1.0, -1.0, -1.0), -1
    return th, seed


def _shift_filter(series):
    """a coordinate filter that changes every value and keeps the length (module level: the loss is pickled in checkpoints)"""
    return np.asarray(series) * 2.0 + 1.0


class TableLoss(BaseLoss):
    """Scripted loss: the value is a table look-up on the (decoded) vector the series were simulated at.
    filtered: the loss is configured with a value-changing coordinate filter on every coordinate - the base class filters what it
    hands to compute_loss_1d; the series the calibrator records must still be what the model returned"""

    def __init__(self, table: dict, default: int, dims: int = 1, filtered: bool = False) -> None:
        super().__init__(np.array([1.0] + [0.0] * (dims - 1)), [_shift_filter] * dims if filtered else None)
        self.table = table
        self.default = default

    def compute_loss(self, sim_data_ensemble, real_data):
        """(observation point: the whole (E, N, D) block handed over by the calibrator; the value comes from the base-class fold)"""
        self._block = np.asarray(sim_data_ensemble)
        self._fresh = True
        return super().compute_loss(sim_data_ensemble, real_data)

    def compute_loss_1d(self, sim_data_ensemble, real_data):  # noqa: ARG002
        rec = REC
        block = getattr(self, "_block", None)
        if block is None or not getattr(self, "_fresh", True):
            return 0.0
        self._fresh = False                               # only the first coordinate of a compute_loss call carries the value
        mem = [decode_series(block[e]) for e in range(block.shape[0])]
        a = self.default
        if rec is None:
            self._fresh = True
            return a * 1e-4
        try:
            if rec.enabled:
                if rec.fault_now("loss"):
                    rec.log({"e": "fault", "at": "loss"})
                    raise injected("loss")
                seq = rec.script.get("loss", {}).get("seq", [])
                if rec.loss_ok < len(seq):
                    a = seq[rec.loss_ok]          # scripted by (successful) invocation index
                rec.loss_ok += 1
                rec.log({"e": "loss", "mem": [[rec.pid(t), rec.seedpos.get(s, -1)] for t, s in mem], "val": a})
            return rec.loss_float(a)      # (weights are (1, 0, .., 0): the weighted sum is exactly the scripted value)
        finally:
            pass


class ScriptedAgent(Agent):
    def __init__(self, choices, random_state=None):
        super().__init__(random_state=random_state)
        self.choices = list(choices)
        self.i = 0

    def policy(self, state):  # noqa: ARG002
        a = self.choices[self.i % len(self.choices)]
        self.i += 1
        if REC is not None:
            REC.agent_log.append(("policy", REC.session, a))
        return a

    def learn(self, state, action, reward, next_state):  # noqa: ARG002
        if REC is not None:
            REC.agent_log.append(("learn", REC.session, action, float(reward)))


# ------------------------------------------------------------------------------------------------
# class-level observation wrappers (installed only while a script runs)
# ------------------------------------------------------------------------------------------------
_ORIG = {}


def _position(rec: Recorder, sampler) -> int:
    for i, s in enumerate(rec.cal.scheduler.samplers):
        if s is sampler:
            return i + 1
    return 0


def _expected_seed(rec: Recorder, pos: int) -> int:
    n = len(rec.cal.scheduler.samplers)
    off = n if rec.cfg["kind"] == "rl" else 0
    return rec.draws[off + pos - 1]


def _gen_k(sampler, rows, bs, expect: int) -> int:
    """position of the sampler's generator, recovered from the values it drew (values repeat: the expected
    position is tried first, any other matching position only if the expected one does not match)"""
    if not isinstance(sampler, _Scripted) or sampler.random_state is None or bs == 0:
        return -2
    stream = np.random.default_rng(sampler.random_state).integers(0, 1024, size=bs * 64)
    want = [int(r[3]) for r in rows]
    if 0 <= expect < 63 and [int(x) for x in stream[expect * bs:(expect + 1) * bs]] == want:
        return expect
    for k in range(64 - 1):
        if [int(x) for x in stream[k * bs:(k + 1) * bs]] == want:
            return k
    return -1


def _sample_wrapper(self, search_space, existing_points, existing_losses):
    rec = REC
    if rec is None or not rec.enabled or rec.cal is None:
        return _ORIG["sample"](self, search_space, existing_points, existing_losses)
    cal = rec.cal
    pos = _position(rec, self)
    k = getattr(self, "_vk", 0)
    pre = {"bi": int(cal.current_batch_index), "ns": int(cal.n_sampled_params),
           "lens": [len(cal.params_samp), len(cal.losses_samp), len(cal.series_samp), len(cal.batch_num_samp), len(cal.method_samp)]}
    if rec.fault_now("sampler"):
        rec.log({"e": "fault", "at": "sampler"})
        raise injected("sampler")
    if rec.cfg["kind"] == "rl" and pre["bi"] > 0:
        rec.agent_samples[rec.session] = rec.agent_samples.get(rec.session, 0) + 1
    try:
        out = _ORIG["sample"](self, search_space, existing_points, existing_losses)
    except Exception:
        if not isinstance(self, _Scripted):
            # a built-in sampler raised by itself: a fault like any other when it refuses a history with non-finite / overflowing
            # losses; on an ordinary history it is an unexpected exception of the calibration
            el = np.asarray(existing_losses, dtype=float)
            excused = bool(el.size and (np.any(~np.isfinite(el)) or np.any(np.abs(el) > 1e30)))
            rec.log({"e": "fault", "at": "sampler", "native": excused})
        raise
    if not isinstance(self, _Scripted):
        self._vk = k + 1          # (counted once the batch was really drawn; a seed reset puts the count back to zero)
    # "ctor": the sampler still runs on the seed it was constructed with; how the cascade derives the new seed is not observed
    root = "ctor" if getattr(self, "_vctor", None) is not None and self.random_state == self._vctor else "cal"
    gk = _gen_k(self, out, len(out), k)
    rec.log({"e": "sample", "s": pos, "cls": type(self).__name__, "root": root, "k": k, "gk": k if gk == -2 else gk,
             "pids": [rec.pid(r) for r in out], **pre})
    return out


def _ckpt_wrapper(self, file_name):
    rec = REC
    _ORIG["ckpt"](self, file_name)
    if rec is not None and rec.enabled and rec.in_call:
        rec.log({"e": "ckpt", "bi": int(self.current_batch_index), "ns": int(self.n_sampled_params)})


def _seed_wrapper(self, random_state):
    """a seed reset also restarts the count of batches drawn from the object (observed at the public setter's base implementation)"""
    _ORIG["seed"](self, random_state)
    if isinstance(self, BaseSampler) and not isinstance(self, _Scripted):
        self._vk = 0


def install():
    from black_it.utils.seedable import BaseSeedable

    if "sample" not in _ORIG:
        _ORIG["sample"] = BaseSampler.sample
        _ORIG["ckpt"] = Calibrator.create_checkpoint
        _ORIG["seed"] = BaseSeedable._set_random_state  # noqa: SLF001
    BaseSampler.sample = _sample_wrapper
    Calibrator.create_checkpoint = _ckpt_wrapper
    BaseSeedable._set_random_state = _seed_wrapper  # noqa: SLF001


def uninstall():
    if "sample" in _ORIG:
        from black_it.utils.seedable import BaseSeedable

        BaseSampler.sample = _ORIG["sample"]
        Calibrator.create_checkpoint = _ORIG["ckpt"]
        BaseSeedable._set_random_state = _ORIG["seed"]  # noqa: SLF001


# ------------------------------------------------------------------------------------------------
# projections of a calibrator object
# ------------------------------------------------------------------------------------------------
def project_rows(rec: Recorder, cal) -> list[dict]:
    rows = []
    n = max(len(cal.params_samp), 0)
    for i in range(n):
        def get(arr, i=i):
            return arr[i] if i < len(arr) else None
        ser = get(cal.series_samp)
        mem = []
        if ser is not None:
            for e in range(ser.shape[0]):
                th, sd = decode_series(ser[e])
                mem.append([rec.pid(th), rec.seedpos.get(sd, -1)])
        loss = get(cal.losses_samp)
        b = get(cal.batch_num_samp)
        m = get(cal.method_samp)
        rows.append({"pid": rec.pid(cal.params_samp[i]), "mem": mem,
                     "loss": rec.loss_id(loss) if loss is not None else -88888,
                     "batch": int(b) if b is not None else -1, "meth": int(m) if m is not None else -1})
    return rows


def chosen_consumed(rec: Recorder) -> list[int]:
    """RL: per session, the first choices of the agent, as many as agent-driven batches were started in it."""
    out = []
    sessions = sorted({x[1] for x in rec.agent_log if x[0] == "policy"} | set(rec.agent_samples))
    for s in sessions:
        pol = [x[2] for x in rec.agent_log if x[0] == "policy" and x[1] == s]
        out += pol[:rec.agent_samples.get(s, 0)]
    return [int(x) for x in out]


def idle_event(rec: Recorder, cal, base_threads, raised: bool) -> dict:
    # threads started by the calibration and still alive (joblib/loky keep their own pool-management threads: not black-it's)
    extra = [t for t in threading.enumerate() if t not in base_threads and t.is_alive() and not t.daemon
             and not t.name.startswith(("ExecutorManagerThread", "QueueManagerThread", "QueueFeederThread", "LokyProcess"))
             and "loky" not in type(t).__module__ and "joblib" not in type(t).__module__]
    return {"e": "idle", "bi": int(cal.current_batch_index), "ns": int(cal.n_sampled_params),
            "lens": [len(cal.params_samp), len(cal.losses_samp), len(cal.series_samp), len(cal.batch_num_samp), len(cal.method_samp)],
            "rows": project_rows(rec, cal), "table": {k: int(v) for k, v in cal.samplers_id_table.items()},
            "threads": len(extra), "raised": raised, "chosen": chosen_consumed(rec)}


def disk_event(rec: Recorder, folder: str) -> dict:
    """what restore_from_checkpoint reads back from the folder (observation only: recorder paused)"""
    rec.enabled = False
    try:
        try:
            with quiet():
                r = Calibrator.restore_from_checkpoint(folder, model=current_model())
        except Exception as e:  # noqa: BLE001
            return {"e": "disk", "bi": -1, "ns": -1, "rows": [], "rng": -1, "names": [], "namesok": False, "error": repr(e)[:200]}
        st = json.dumps(r.random_generator.bit_generator.state, sort_keys=True, default=int)
        ev = {"e": "disk", "bi": int(r.current_batch_index), "ns": int(r.n_sampled_params), "rows": project_rows(rec, r),
              "rng": rec.genpos.get(st, -1)}
        try:
            from black_it.plot.plot_results import _get_samplers_names

            ids = sorted({int(x) for x in r.method_samp})
            with quiet():
                names = _get_samplers_names(folder, ids)
            ev["names"] = [{"id": i, "cls": n} for i, n in zip(ids, names)]
            ev["namesok"] = True
        except Exception as e:  # noqa: BLE001
            ev["names"] = []
            ev["namesok"] = False
            ev["names_error"] = repr(e)[:200]
        return ev
    finally:
        rec.enabled = True


# ------------------------------------------------------------------------------------------------
# the script runner
# ------------------------------------------------------------------------------------------------
def _logged_eps_agent(n_actions: int, eps: float):
    from black_it.schedulers.rl.agents.epsilon_greedy import MABEpsilonGreedy

    class LoggedEps(MABEpsilonGreedy):
        def policy(self, obs):
            a = super().policy(obs)
            if REC is not None:
                REC.agent_log.append(("policy", REC.session, int(a)))
            return a

        def learn(self, state, action, reward, next_state):
            super().learn(state, action, reward, next_state)
            if REC is not None:
                REC.agent_log.append(("learn", REC.session, int(action), float(reward)))
    globals()["LoggedEps"] = LoggedEps
    LoggedEps.__module__, LoggedEps.__qualname__ = __name__, "LoggedEps"
    return LoggedEps(n_actions=n_actions, alpha=-1, eps=eps)


def build_scheduler(cfg, samplers, agent_choices):
    if cfg["kind"] == "rr":
        return None
    from black_it.schedulers.rl.envs.mab import MABCalibrationEnv
    from black_it.schedulers.rl.rl_scheduler import RLScheduler

    has_halton = any(type(s).__name__ == "HaltonSampler" for s in samplers)
    n_eff = len(samplers) + (0 if has_halton else 1)
    agent = _logged_eps_agent(n_eff, cfg["eps"]) if cfg.get("eps") is not None else ScriptedAgent(agent_choices or [0])
    env = MABCalibrationEnv(nb_samplers=n_eff)
    return RLScheduler(samplers, agent=agent, env=env)


def cleanup_threads(cal, base_threads) -> int:
    """Unblock and reap an agent thread the library left behind (so that the check itself can go on)."""
    leaked = [t for t in threading.enumerate() if t not in base_threads and t.is_alive() and not t.daemon]
    sched = getattr(cal, "scheduler", None)
    if leaked and sched is not None and hasattr(sched, "_out_queue"):
        try:
            sched._stopped = True  # noqa: SLF001
            sched._out_queue.put(None)  # noqa: SLF001
            for t in leaked:
                t.join(2)
            while not sched._in_queue.empty():  # noqa: SLF001
                sched._in_queue.get_nowait()  # noqa: SLF001
        except Exception:  # noqa: BLE001
            pass
    return len(leaked)


def run_script(script: dict) -> dict:
    """Execute one script on the real Calibrator; returns {"cfg":..., "ev":[...]} for CalibrationTrace.tla."""
    global REC
    cfg = dict(script["cfg"])
    cfg.setdefault("alts", [])
    cfg.setdefault("N", N_SIM)
    cfg.setdefault("modelevents", cfg.get("njobs", 1) == 1)
    cfg.setdefault("prec", 3)
    rec = Recorder({**script, "cfg": cfg})
    REC = rec
    base_threads = set(threading.enumerate())
    top = tempfile.mkdtemp(prefix="verif-ckpt-")
    top2 = tempfile.mkdtemp(prefix="verif-ckpt2-")         # explicit checkpoints may go to a folder other than the saving folder
    nested = cfg.get("seed", 0) % 5 == 2                   # folders that do not exist yet, below parents that do not exist either
    folder = os.path.join(top, "runs", "r1") if nested else top
    folder2 = os.path.join(top2, "runs", "r2") if nested else top2
    as_arg = (lambda f: f)
    if cfg.get("seed", 0) % 2:                             # create_checkpoint / restore_from_checkpoint take str or os.PathLike
        from pathlib import Path as as_arg                 # (saving_folder is declared str: always given as str)
    prev_kind = None
    install()
    cal = None
    try:
        with quiet():
            samplers = [make_sampler(d, 9000 + i) for i, d in enumerate(cfg["lineup"])]
            loss = TableLoss(script.get("loss", {}).get("by", {}), script.get("loss", {}).get("default", 6), int(cfg.get("D", 1)),
                             filtered=bool(cfg.get("filtered", False)))
            SLOW[0] = bool(cfg.get("slow", False))
            SCRIBBLE[0] = bool(cfg.get("scribble", False)) and not SLOW[0]
            MODEL_D[0] = 1 if SLOW[0] or SCRIBBLE[0] else int(cfg.get("D", 1))
            real = np.zeros((cfg.get("Nreal", cfg["N"]), MODEL_D[0]))
            sched = build_scheduler(cfg, samplers, script.get("agent"))
            kw = {"samplers": samplers} if sched is None else {"scheduler": sched}
            # (scripted samplers encode their identity in the point and ignore the grid: the declared space may be tiny)
            bounds = [[0, 0, 0, 0], [1, 1, 1, 1]] if cfg.get("tinyspace") else SPACE_BOUNDS
            cal = Calibrator(loss_function=loss, real_data=real, model=current_model(), parameters_bounds=bounds,
                             parameters_precision=SPACE_PREC, ensemble_size=cfg["E"],
                             sim_length=None if cfg.get("Nreal", cfg["N"]) == cfg["N"] else cfg["N"],
                             convergence_precision=cfg["prec"] if cfg["convon"] else None, verbose=cfg["verbose"],
                             saving_folder=folder if cfg["saving"] else None, random_state=cfg["seed"],
                             n_jobs=cfg.get("njobs", 1), **kw)
            rec.cal = cal
            for op in script["ops"]:
                kind = op[0]
                if kind == "call":
                    rec.session += 1
                    rec.log({"e": "call", "n": op[1]})
                    rec.in_call = True
                    raised = False
                    try:
                        with _watchdog():
                            p, lo = cal.calibrate(op[1])
                        rec.in_call = False
                        rec.log({"e": "ret", "pairs": [[rec.pid(p[i]), rec.loss_id(lo[i])] for i in range(len(p))]})
                    except Hang:
                        # calibrate() neither returned nor raised within HANG_S seconds (normal duration: well under a second)
                        rec.in_call = False
                        rec.log({"e": "hang", "call": rec.session, "after": HANG_S})
                        break
                    except (Exception, InjectedInterrupt) as e:  # noqa: BLE001
                        rec.in_call = False
                        raised = True
                        rec.log({"e": "raise", "injected": isinstance(e, (*INJECTED_TYPES, InjectedInterrupt)) or bool(rec.events and rec.events[-1].get("native")), "type": f"{type(e).__name__}: {e}"[:160]})
                    rec.log(idle_event(rec, cal, base_threads, raised))
                    if cfg["saving"] and not raised and op[1] > 0:
                        rec.log(disk_event(rec, folder))
                    if raised:
                        cleanup_threads(cal, base_threads)
                elif kind == "mkckpt":
                    if cfg.get("elsewhere"):
                        cal.create_checkpoint(as_arg(folder2))
                    cal.create_checkpoint(as_arg(folder))
                    rec.log({"e": "mkckpt"})
                    rec.log(disk_event(rec, folder))
                elif kind == "restore":
                    src = folder2 if cfg.get("elsewhere") and prev_kind == "mkckpt" else folder
                    cal = Calibrator.restore_from_checkpoint(as_arg(src), model=current_model())
                    rec.cal = cal
                    rec.log({"e": "restore"})
                    rec.log(idle_event(rec, cal, base_threads, False))
                elif kind == "setsched":
                    from black_it.schedulers.round_robin import RoundRobinScheduler

                    new = [make_sampler(d, 9700 + i) for i, d in enumerate(op[1])]
                    cal.set_scheduler(RoundRobinScheduler(new))
                    rec.log({"e": "setsched", "line": op[1]})
                    rec.log(idle_event(rec, cal, base_threads, False))
                elif kind == "set":
                    new = [make_sampler(d, 9500 + i) for i, d in enumerate(op[1])]
                    cal.set_samplers(new)
                    rec.log({"e": "set", "line": op[1]})
                    rec.log(idle_event(rec, cal, base_threads, False))
                else:
                    raise ValueError(kind)
                prev_kind = kind
    except Exception as e:  # noqa: BLE001  -- the harness itself could not go on: recorded, validated as far as it got
        rec.events.append({"e": "harness-error", "what": f"{type(e).__name__}: {e}"[:300]})
    finally:
        uninstall()
        if cal is not None:
            cleanup_threads(cal, base_threads)
        REC = None
        shutil.rmtree(top, ignore_errors=True)
        shutil.rmtree(top2, ignore_errors=True)
    tcfg = {"lineup": cfg["lineup"], "alts": cfg["alts"], "kind": cfg["kind"], "E": cfg["E"], "N": cfg["N"],
            "convon": cfg["convon"], "verbose": cfg["verbose"], "saving": cfg["saving"], "modelevents": cfg["modelevents"]}
    return {"cfg": tcfg, "ev": rec.events, "script": script}
