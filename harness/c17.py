"""C17 - grid snapping maps every value to a nearest grid element.

TLC: exhaustive check of the step-by-step model of get_closest (GridSnap.tla, MC_C17.cfg) against
IsNearest / Idempotent, plus a design mutant that must be refuted (non-vacuity).
Binding: every case below is executed on the real black_it.utils.base.get_closest / digitize_data and the
recorded (grid, values, outputs) events are validated by TLC against IsNearest (GridSnapTrace.tla).
"""
from __future__ import annotations

import itertools
import random
from fractions import Fraction

import numpy as np

from . import tlc
from .common import Check

UNIVERSE = [0, 2, 4, 6, 8, 10, 12]
VALUES = list(range(-3, 17))


def _f(ints, shift, off=0):
    """exact dyadic floats  (i + off) * 2**shift"""
    a = (np.asarray(ints, dtype=np.int64) + off).astype(np.float64) * (2.0 ** shift)
    return a


def _ints(arr, shift, off=0):
    b = np.asarray(arr, dtype=np.float64) / (2.0 ** shift)
    r = np.rint(b)
    if not np.array_equal(r, b):
        return None  # not representable: the implementation returned something off the dyadic lattice
    return (r.astype(np.int64) - off).tolist()


def _call_closest(g_int, v_int, shift, off):
    from black_it.utils.base import get_closest

    g = _f(g_int, shift, off)
    v = _f(v_int, shift, off)
    if shift == 0 and off == 0 and (len(g_int) + len(v_int)) % 3 == 0:
        g = np.asarray(g_int, dtype=np.int64)          # an integer-typed grid (values stay floats, or are integers too)
        if len(v_int) % 2 == 0:
            v = np.asarray(v_int, dtype=np.int64)
    try:
        out = get_closest(g, v)
    except Exception as e:  # noqa: BLE001
        return {"op": "closest", "g": g_int, "v": v_int, "out": [], "exc": repr(e)}
    o = _ints(out, shift, off) if np.shape(out) == np.shape(v) else None
    return {"op": "closest", "g": list(g_int), "v": list(v_int), "out": o if o is not None else [],
            "raw": np.asarray(out).tolist() if o is None else None}


def _call_digitize(grids_int, data_int, shift, again=False, dtype=None, reuse=None):
    from black_it.utils.base import digitize_data

    grids = [_f(g, shift) for g in grids_int]
    if reuse is not None and len(reuse) == len(grids) and all(len(a) == len(b) for a, b in zip(reuse, grids)):
        for old, new in zip(reuse, grids):
            old[:] = new                # the caller's grid arrays, overwritten in place since the previous call
        grids = reuse
    data = _f(data_int, shift).reshape(len(data_int), len(grids_int))
    if dtype is not None and np.array_equal(data.astype(dtype).astype(np.float64), data):
        data = data.astype(dtype)           # the same numbers in another dtype (integers, single precision): the grid stays float64
    keep = data.copy()
    try:
        out = digitize_data(data, grids)
    except Exception as e:  # noqa: BLE001
        return {"op": "digitize", "grids": grids_int, "data": data_int, "out": [], "exc": repr(e)}
    o = _ints(np.asarray(out, dtype=np.float64), shift) if out.shape == data.shape else None
    ev = {"op": "digitize", "grids": [list(g) for g in grids_int], "data": [list(r) for r in data_int],
          "out": o if o is not None else []}
    _LAST_GRIDS[0] = grids
    if again:
        ev["again"] = True
    if not np.array_equal(keep, data):
        ev["out"] = []  # input modified: reported as a shape/nearest failure
        ev["exc"] = "digitize_data modified its input"
    return ev


_LAST_GRIDS: list = [None]


def _ranked(grid: np.ndarray, v: float):
    """decimal (non-dyadic) grid: project exact distances to ranks (classes of 1e-12 relative width)."""
    from black_it.utils.base import get_closest

    out = get_closest(grid, np.array([v]))[0]
    ds = [abs(Fraction(float(x)) - Fraction(float(v))) for x in grid]
    dmin = min(ds)
    if v <= grid[0] or v >= grid[-1]:
        tol = Fraction(0)        # outside the range the end element is the nearest one, however far the value lies: no rounding excuse
    else:
        tol = dmin * Fraction(1, 10**12) + Fraction(1, 10**300)
    rank = [0 if d <= dmin + tol else 1 for d in ds]
    pos = [i for i, x in enumerate(grid) if x == out]
    return {"op": "ranked", "n": len(grid), "oi": (pos[0] + 1) if pos else 0, "rank": rank,
            "grid_head": [float(x) for x in grid[:4]], "value": float(v), "out": float(out)}


def build_traces(tier: str, rng: random.Random):
    traces = []
    # (a) the exhaustive lattice of the model-checked configuration, on the real code, three exact scalings
    sizes = [1, 2, 3, 4] if tier == "quick" else [1, 2, 3, 4, 5]
    for shift, off in ([(0, 0), (-7, -40), (9, 3)] if tier == "quick" else [(0, 0), (-7, -40), (9, 3), (-20, 12345), (3, -6)]):
        for k in sizes:
            for g in itertools.combinations(UNIVERSE, k):
                traces.append([_call_closest(list(g), VALUES, shift, off)])
    # (b) random non-uniform dyadic grids of 1..200 elements: end-points, exact mid-points, far values
    n_rand = 60 if tier == "quick" else 600
    for _ in range(n_rand):
        n = rng.choice([1, 2, 3, 5, 17, 64, 200])
        pts = sorted(rng.sample(range(-5000, 5000), n))
        pts = [2 * p for p in pts]  # doubled: mid-points are integers
        vals = set()
        for a, b in zip(pts, pts[1:]):
            if rng.random() < 0.5:
                vals.add((a + b) // 2)  # exact mid-point
            vals.add(rng.randint(a, b))
        vals |= {pts[0], pts[-1], pts[0] - 1, pts[-1] + 1, pts[0] - 10**6, pts[-1] + 10**6}
        vals |= {rng.randint(-12000, 12000) for _ in range(10)}
        vals = sorted(vals)
        if len(vals) > 60:
            vals = rng.sample(vals, 60)
        shift = rng.choice([0, -3, -11, 4, -40, -60, 25])      # spacings from 1e-18 to 1e8
        if rng.random() < 0.4:
            # a fine lattice: values one unit (relative 1e-6 .. 1e-5) below / above the exact mid-points and the grid elements
            f = 2**17
            small = sorted(rng.sample(range(-1500, 1500), min(n, 40)))
            pts = [2 * p * f for p in small]
            vals = set()
            for a, b in zip(pts, pts[1:]):
                m = (a + b) // 2
                vals |= {m - 1, m + 1, m, a + 1, b - 1, m - rng.randint(2, 9), m + rng.randint(2, 9)}
            vals = sorted(vals)[:60] if len(vals) > 60 else sorted(vals)
            if not vals:
                vals = [pts[0] - 1, pts[0] + 1]
        ev = _call_closest(pts, vals, shift, 0)
        # idempotence: snap the snapped values again
        ev2 = _call_closest(pts, ev["out"], shift, 0) if ev["out"] else None
        if ev2 is not None:
            ev2["again"] = True
            traces.append([ev, ev2])
        else:
            traces.append([ev])
    # (c) digitize_data: column-wise with each column's own grid, all shapes (0..5 rows, 1..4 columns)
    n_dig = 60 if tier == "quick" else 500
    for _ in range(n_dig):
        cols = rng.randint(1, 4)
        rows = rng.choice([0, 1, 2, 3, 5])
        grids = []
        for c in range(cols):
            n = rng.choice([1, 2, 3, 6, 30])
            base = rng.randint(-300, 300) * 2
            step = rng.choice([2, 4, 6, 10, 50])
            if rng.random() < 0.5:
                g = [base + i * step for i in range(n)]
            else:
                g = sorted({base + 2 * rng.randint(0, 400) for _ in range(n)})
            grids.append(g)
        if cols >= 2 and rng.random() < 0.4:
            # columns whose grids agree in size and end-points and differ only inside (each column must still use its OWN grid)
            n = rng.choice([3, 4, 6, 12])
            lo, hi = 2 * rng.randint(-200, 0), 2 * rng.randint(100, 400)
            grids = [[lo] + sorted(rng.sample(range(lo + 2, hi, 2), n - 2)) + [hi] for _ in range(cols)]
        data = [[rng.randint(min(grids[c]) - 30, max(grids[c]) + 30) for c in range(cols)] for _ in range(rows)]
        shift = rng.choice([0, -4, 6])
        ev = _call_digitize(grids, data, shift)
        if rows and ev["out"]:
            ev2 = _call_digitize(grids, ev["out"], shift, again=True)
            traces.append([ev, ev2])
        elif rows:
            traces.append([ev])
        else:
            if ev.get("exc") is None and ev["out"] == []:
                traces.append([ev])
            else:
                traces.append([ev])
    # (c') values of another dtype than the grid: integer values on grids of half-integers, single-precision values on grids whose
    #      elements are not single-precision numbers - the result must be the grid element itself (float64)
    for k in range(40 if tier == "quick" else 400):
        cols = rng.randint(1, 3)
        rows = rng.randint(1, 4)
        if k % 2 == 0:
            shift, dtype = -1, rng.choice([np.int64, np.int32])
            grids = [sorted({2 * rng.randint(-40, 40) + 1 for _ in range(rng.choice([2, 3, 7]))}) for _ in range(cols)]     # odd / 2
            data = [[2 * rng.randint(-45, 45) for _ in range(cols)] for _ in range(rows)]                                    # integers
        else:
            shift, dtype = 0, np.float32
            big = 2 ** 25
            grids = [sorted({big + 2 * rng.randint(0, 60) + 1 for _ in range(rng.choice([2, 3, 7]))}) for _ in range(cols)]
            data = [[big + 4 * rng.randint(-5, 35) for _ in range(cols)] for _ in range(rows)]
        traces.append([_call_digitize(grids, data, shift, dtype=dtype)])
    # (c3) two calls with the SAME grid array objects, their contents replaced in place in between: each call snaps to the grid as it is
    for _ in range(20 if tier == "quick" else 200):
        cols, n = rng.randint(1, 3), rng.choice([2, 3, 6])
        g1 = [sorted(rng.sample(range(-100, 100, 2), n)) for _ in range(cols)]
        g2 = [sorted(rng.sample(range(-400, 400, 2), n)) for _ in range(cols)]
        d1 = [[rng.randint(-120, 120) for _ in range(cols)] for _ in range(3)]
        d2 = [[rng.randint(-420, 420) for _ in range(cols)] for _ in range(3)]
        e1 = _call_digitize(g1, d1, 0)
        e2 = _call_digitize(g2, d2, 0, reuse=_LAST_GRIDS[0])
        traces.append([e1])
        traces.append([e2])
    # (d) decimal grids as SearchSpace builds them (np.arange), values incl. float mid-points: exact ranks
    n_dec = 150 if tier == "quick" else 2000
    for _ in range(n_dec):
        lo = rng.choice([0.0, -1.0, 0.1, -0.35, 10.0, 1e-3, -2e4])
        prec = rng.choice([0.1, 0.01, 0.3, 0.25, 1e-3, 7.0, 0.05])
        n = rng.choice([2, 3, 10, 57, 200])
        grid = np.arange(lo, lo + prec * (n - 1) + 1e-7, prec)
        i = rng.randrange(len(grid))
        kind = rng.choice(["mid", "in", "elem", "below", "above", "ulp", "far"])
        if kind == "mid" and i + 1 < len(grid):
            v = (grid[i] + grid[i + 1]) / 2
        elif kind == "in":
            v = rng.uniform(grid[0], grid[-1])
        elif kind == "elem":
            v = float(grid[i])
        elif kind == "below":
            v = grid[0] - rng.choice([1e-9, 0.5, 1e6])
        elif kind == "above":
            v = grid[-1] + rng.choice([1e-9, 0.5, 1e6])
        elif kind == "far":
            # so far out that the grid spacing is absorbed by rounding: all distances look equal, the end element is still nearest
            v = rng.choice([-1.0, 1.0]) * rng.choice([1e17, 1e19, 1e300, float(np.finfo(float).max), 2.0**70])
        else:
            v = float(np.nextafter(grid[i], rng.choice([-np.inf, np.inf])))
        traces.append([_ranked(grid, float(v))])
    return traces


def run(tier: str) -> int:
    chk = Check("C17", tier)
    rng = random.Random(1000 + chk.seed)
    # 1. design: exhaustive
    res = tlc.model_check("GridSnap", "MC_C17.cfg" if tier == "quick" else "MC_C17_thorough.cfg", workers=8, deadlock=False)
    chk.add_mc(res, "step-by-step model of get_closest satisfies IsNearest/Idempotent on every grid/value of the lattice")
    if not res["ok"]:
        raise tlc.MachineryError(f"design model violates {res['violated']}")
    mut = tlc.expect_counterexample("GridSnap", "MC_C17_mut.cfg", "Nearest", workers=4, deadlock=False)
    chk.add_mc(mut, "non-vacuity: design mutant (no step back) is refuted by Nearest")
    # 2. conformance
    traces = build_traces(tier, rng)
    return _validate(chk, traces, "dyadic lattice of the model-checked configuration (all sorted grids of 1-4(5) elements x 20 "
                     "values, 3-5 exact scalings), random non-uniform dyadic grids up to 200 elements with mid/end/far "
                     "values + idempotence, digitize_data over 0-5 rows x 1-4 columns with per-column grids, decimal "
                     "np.arange grids with exact-distance ranks; distinct = distinct event lists")


def _validate(chk: Check, traces, rule: str) -> int:
    doc = {"traces": [[{k: v for k, v in e.items() if k in ("op", "g", "v", "out", "grids", "data", "again", "n", "oi", "rank")}
                       for e in t] for t in traces]}
    res = tlc.validate("GridSnapTrace", "GridSnapTrace.cfg", doc, chunk=400)
    chk.add_validation(res)
    chk.evaluations = sum(len(e.get("v", [])) or len(e.get("data", [])) * max(1, len(e.get("grids", []))) or 1
                          for t in traces for e in t)
    chk.extra["distinct_nontrivial"] = len({repr(t) for t in doc["traces"]})
    chk.extra["algorithm_drift_events"] = sum(len(v) for v in res["info"].values())
    for t in traces[:2] + traces[-2:]:
        chk.sample(t)
    for tid, why in res["rejected"].items():
        ev = traces[tid - 1][why["at"] - 1]
        chk.violation(f"{ev['op']}:{'again' if ev.get('again') else 'nearest'}",
                      f"{why['why']} (event {why['at']} of trace {tid})",
                      {"trace": traces[tid - 1], "tlc": why})
    return chk.finish(rule)


def replay(rep: dict) -> int:
    """Re-execute the recorded inputs on the current tree and re-validate."""
    chk = Check("C17", "quick")
    traces = []
    for ev in rep["trace"]:
        if ev["op"] == "closest":
            # inputs are scaled integers; shift 0 reproduces the same integer lattice exactly
            traces.append([_call_closest(ev["g"], ev["v"], 0, 0)])
        elif ev["op"] == "digitize":
            traces.append([_call_digitize(ev["grids"], ev["data"], 0)])
        else:
            grid = None
            traces.append([ev])
    return _validate(chk, traces, "replay of a stored violation")
