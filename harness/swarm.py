"""Growth beyond the listed properties: the bookkeeping of ParticleSwarmSampler (Swarm.tla / SwarmTrace.tla).

The sampler is driven through its public sample() on histories grown the way a Calibrator grows them (its own batch appended
right after the call, batches of other samplers in between) and in the ways only a direct caller can (a call before the batch was
appended, only part of the batch appended, reset()).  After every call the private bookkeeping is logged and TLC checks that it is
what Swarm.tla computes from the previous state and the history shown.
"""
from __future__ import annotations

import random

import numpy as np

from . import tlc
from .common import quiet

INF = 99


def _enc(x: float) -> int:
    return INF if np.isinf(x) else int(x)


def swarm_trace(rng: random.Random, direct: bool) -> tuple[list[dict], dict]:
    from black_it.samplers.particle_swarm import ParticleSwarmSampler
    from black_it.search_space import SearchSpace

    np_ = rng.randint(1, 4)
    dims = rng.randint(1, 3)
    lo = [float(rng.choice([0, -2, 5])) for _ in range(dims)]
    hi = [a + rng.choice([1.0, 3.0, 10.0]) for a in lo]
    space = SearchSpace([lo, hi], [rng.choice([0.01, 0.1, 0.5]) for _ in range(dims)], verbose=False)
    gmas = rng.random() < 0.5
    seed = rng.randrange(2**31)
    s = ParticleSwarmSampler(batch_size=np_, random_state=seed, global_minimum_across_samplers=gmas)
    meta = {"np": np_, "dims": dims, "bounds": [lo, hi], "across": gmas, "seed": seed, "direct": direct, "script": []}
    pts = np.zeros((0, dims))
    los = np.zeros(0)
    vals = [0.0, 1.0, 2.0, 3.0, 4.0, float("inf")]

    def foreign(k: int):
        nonlocal pts, los
        if k:
            pts = np.vstack([pts, np.array([[rng.uniform(a, b) for a, b in zip(lo, hi)] for _ in range(k)])])
            los = np.concatenate([los, [rng.choice(vals) for _ in range(k)]])
            meta["script"].append(["foreign", k])

    evs: list[dict] = []
    foreign(rng.choice([0, 0, 1, 3]))
    for _ in range(rng.randint(2, 7)):
        if s.is_set_up and rng.random() < 0.08:
            s.reset()
            evs.append({"e": "reset"})
            meta["script"].append(["reset"])
            continue
        was_up = s.is_set_up
        kp, kl = pts.copy(), los.copy()
        with quiet():
            out = s.sample(space, pts, los)
        bp = True
        if was_up and len(los):
            bp = bool(np.array_equal(s._best_point, pts[int(np.argmin(los))]))  # noqa: SLF001
        evs.append({"e": "step" if was_up else "setup", "np": np_, "hist": [_enc(x) for x in los],
                    "start": int(s._previous_batch_index_start),  # noqa: SLF001
                    "best": [_enc(x) for x in s._best_position_losses],  # noqa: SLF001
                    "g": int(s._global_best_particle_id) + 1, "bp": bp, "ctx": "direct", "ownwin": True,  # noqa: SLF001
                    "histsame": bool(np.array_equal(kp, pts) and np.array_equal(kl, los))})
        meta["script"].append(["sample"])
        # the calibrator appends the batch with its losses right after the call; a direct caller may append less, or nothing
        k = np_
        if direct and rng.random() < 0.3:
            k = rng.randint(0, np_)
        if k:
            pts = np.vstack([pts, out[:k]])
            los = np.concatenate([los, [rng.choice(vals) for _ in range(k)]])
        meta["script"].append(["own", k])
        foreign(rng.choice([0, 0, 1, 2, 5]))
        if len(los) == 0:
            foreign(1)          # (a second call on an empty history is refused by numpy's argmin: outside what is modelled)
    return evs, meta


def calibrator_trace(rng: random.Random) -> tuple[list[dict], dict] | None:
    """the same events recorded inside a real Calibrator.calibrate() with the swarm among other samplers (losses as dense ranks)"""
    from black_it.calibrator import Calibrator
    from black_it.loss_functions.minkowski import MinkowskiLoss
    from black_it.samplers.halton import HaltonSampler
    from black_it.samplers.particle_swarm import ParticleSwarmSampler
    from black_it.samplers.random_uniform import RandomUniformSampler

    raw: list[dict] = []

    class LoggedSwarm(ParticleSwarmSampler):
        _last = None

        def sample(self, search_space, existing_points, existing_losses):
            was_up = self.is_set_up
            before = self._previous_batch_index_start
            out = super().sample(search_space, existing_points, existing_losses)
            own = True
            bp = True
            if was_up:
                own = bool(np.array_equal(existing_points[before:before + self.batch_size], self._last))
                bp = bool(np.array_equal(self._best_point, existing_points[int(np.argmin(existing_losses))]))
            raw.append({"e": "step" if was_up else "setup", "np": self.batch_size, "hist": [float(x) for x in existing_losses],
                        "start": int(self._previous_batch_index_start), "best": [float(x) for x in self._best_position_losses],
                        "g": int(self._global_best_particle_id) + 1, "bp": bp, "ctx": "calibrator", "ownwin": own})
            self._last = np.array(out, copy=True)
            return out

    np_ = rng.randint(1, 3)
    levels = rng.choice([2, 3, 5])

    def model(theta, N, seed):  # noqa: N803, ARG001
        return np.full((N, 1), 1.0 + float(int(abs(theta[0]) * 7) % levels))      # few distinct losses (ties), never a perfect fit (no early stop)

    others = [HaltonSampler(batch_size=rng.randint(1, 3), random_state=rng.randrange(2**31)) for _ in range(rng.randint(0, 1))]
    others += [RandomUniformSampler(batch_size=rng.randint(1, 3), random_state=rng.randrange(2**31)) for _ in range(rng.randint(0, 2))]
    seed = rng.randrange(2**31)
    pso = LoggedSwarm(batch_size=np_, random_state=seed, global_minimum_across_samplers=rng.random() < 0.5)
    samplers = [*others]
    samplers.insert(rng.randint(0, len(samplers)), pso)
    nb = len(samplers) * rng.randint(2, 4) + rng.randint(0, len(samplers) - 1)
    meta = {"np": np_, "seed": seed, "samplers": [type(x).__name__ for x in samplers], "batches": nb, "levels": levels, "calibrator": True}
    with quiet():
        cal = Calibrator(loss_function=MinkowskiLoss(), real_data=np.zeros((5, 1)), model=model,
                         parameters_bounds=[[0.0, -1.0], [3.0, 1.0]], parameters_precision=[0.01, 0.5], ensemble_size=1,
                         samplers=samplers, random_state=rng.randrange(2**31), verbose=False, saving_folder=None, n_jobs=1)
        cal.calibrate(nb)
    vals = sorted({x for e in raw for x in e["hist"] + e["best"] if np.isfinite(x)})
    if len(vals) >= INF:
        return None
    rk = {v: i for i, v in enumerate(vals)}
    for e in raw:
        e["hist"] = [rk[x] if np.isfinite(x) else INF for x in e["hist"]]
        e["best"] = [rk[x] if np.isfinite(x) else INF for x in e["best"]]
    return raw, meta


def run_growth(chk, tier: str, rng: random.Random) -> None:
    """model-check Swarm.tla, validate real traces; a rejection is reported as a note (the bookkeeping of the swarm is not one of
    the listed properties), except a modified history, which is the no-modification clause of C16"""
    r = tlc.model_check("Swarm", "MC_Swarm.cfg" if tier == "quick" else "MC_Swarm_thorough.cfg", workers=8, deadlock=False)
    if not r["ok"]:
        raise tlc.MachineryError(f"Swarm.tla violates {r['violated']}")
    chk.add_mc(r, "growth: particle-swarm bookkeeping among interleaved samplers (best = min of own losses, window lands on own batch)")
    if tier != "quick":
        r2 = tlc.model_check("Swarm", "MC_Swarm_thorough2.cfg", workers=8, deadlock=False)
        if not r2["ok"]:
            raise tlc.MachineryError(f"Swarm.tla violates {r2['violated']}")
        chk.add_mc(r2, "growth: three particles, losses {0,1,2,+inf}, histories <= 8")
    chk.add_mc(tlc.expect_counterexample("Swarm", "MC_Swarm_mut.cfg", None, workers=4, deadlock=False),
               "non-vacuity: window start recorded only at set-up")
    traces, metas = [], []
    for i in range(150 if tier == "quick" else 2500):
        evs, meta = swarm_trace(rng, direct=i % 3 == 0)
        traces.append(evs)
        metas.append(meta)
    for _ in range(60 if tier == "quick" else 600):
        got = calibrator_trace(rng)
        if got:
            traces.append(got[0])
            metas.append(got[1])
    res = tlc.validate_parallel("SwarmTrace", "SwarmTrace.cfg", [[{k: v for k, v in e.items() if k != "histsame"} for e in t] for t in traces],
                                parts=4)
    chk.add_validation(res)
    notes = []
    for tid, why in sorted(res["rejected"].items()):
        notes.append({"trace": metas[tid - 1], "at": why["at"], "why": why["why"].strip('"'), "event": traces[tid - 1][why["at"] - 1]})
    for t, m in zip(traces, metas):
        for e in t:
            if e.get("histsame") is False:
                chk.violation("ParticleSwarmSampler:history-modified", f"ParticleSwarmSampler modified the history it was given ({m})",
                              {"event": {"cls": "ParticleSwarmSampler", "bs": m["np"], "seed": m["seed"]}})
    chk.extra["swarm_growth"] = {"traces": len(traces), "events": sum(len(t) for t in traces), "accepted": len(res["accepted"]),
                                 "rejected_notes": notes[:10]}
    for n in notes[:5]:
        print(f"NOTE: growth specification Swarm.tla rejects a real trace ({n['why']} at event {n['at']}; not a listed property): {n['trace']}")
