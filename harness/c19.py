"""C19 - the bandit agent and reward follow their published update rules (Bandit.tla / BanditTrace.tla)."""
from __future__ import annotations

import random
from fractions import Fraction

from . import tlc
from .common import Check, quiet


def rat(x: float, maxden: int = 10**6):
    """rational the float stands for (recovered with a bounded denominator) and whether it is within 1e-12 of it"""
    f = Fraction(float(x)).limit_denominator(maxden)
    close = abs(Fraction(float(x)) - f) <= Fraction(1, 10**12) * max(1, abs(f))
    if abs(f.numerator) >= 2**30 or f.denominator >= 2**30:
        return [0, 1], False
    return [f.numerator, f.denominator], bool(close)


def agent_trace(n, alpha: Fraction | None, eps: float, q0: Fraction, steps, seed: int):
    """steps: list of ("learn", a, Fraction r) | ("policy",) | ("reward", Fraction best); alpha None = sample-average sentinel"""
    from black_it.schedulers.rl.agents.epsilon_greedy import MABEpsilonGreedy
    from black_it.schedulers.rl.envs.mab import MABCalibrationEnv

    a_f = -1 if alpha is None else float(alpha)
    # numbers as a user may write them: integer-valued options as Python ints (initial_values=0, alpha=1, eps=0/1)
    as_int = seed % 2 == 0
    iv = int(q0) if as_int and q0.denominator == 1 else float(q0)
    if as_int and alpha is not None and alpha.denominator == 1:
        a_f = int(alpha)
    if as_int and float(eps) in (0.0, 1.0):
        eps = int(eps)
    ag = MABEpsilonGreedy(n_actions=n, alpha=a_f, eps=eps, initial_values=iv, random_state=seed)
    # the twin is built with another seed and then given the same one through the public setter: the choices are a function of
    # the seed the agent holds, however it got it
    twin = MABEpsilonGreedy(n_actions=n, alpha=a_f, eps=eps, initial_values=iv, random_state=(seed + 1) if seed % 2 else None)
    twin.random_state = seed
    env = MABCalibrationEnv(nb_samplers=n)
    ref0 = Fraction(8)
    env._curr_best_loss = float(ref0)  # noqa: SLF001   (the scheduler sets the reference after the bootstrap batch)
    al = [-1, 1] if alpha is None else [alpha.numerator, alpha.denominator]
    ev = [{"e": "init", "n": n, "alpha": al, "q0": [q0.numerator, q0.denominator], "ref": [ref0.numerator, ref0.denominator]}]
    for st in steps:
        if st[0] == "learn":
            _, a, r = st
            ag.learn(0, a, float(r), 0)
            twin.learn(0, a, float(r), 0)
            qs, ok = [], True
            for x in ag.Q:
                q, c = rat(x)
                qs.append(q)
                ok = ok and c
            ev.append({"e": "learn", "a": a, "r": [r.numerator, r.denominator], "q": qs, "cnt": [int(c) for c in ag.actions_count], "close": ok})
        elif st[0] == "policy":
            a = ag.policy(0)
            b = twin.policy(0)
            ev.append({"e": "policy", "a": int(a) if isinstance(a, int) or hasattr(a, "__int__") else -9, "eps0": eps == 0.0, "twin": int(b)})
        else:
            best = st[1]
            try:
                if seed % 3 == 0:
                    # the way the agent thread obtains it: step() sends the action, receives the outcome, returns the reward
                    env._in_queue.put((None, float(best)))  # noqa: SLF001
                    _obs, r, _term, _trunc, _info = env.step(0)
                    while not env._out_queue.empty():  # noqa: SLF001
                        env._out_queue.get_nowait()  # noqa: SLF001
                else:
                    r = env.get_reward(None, float(best))
            except Exception:  # noqa: BLE001
                r = -12345.0
            rr, c1 = rat(r)
            ra, c2 = rat(env._curr_best_loss)  # noqa: SLF001
            ev.append({"e": "reward", "best": [best.numerator, best.denominator], "r": rr, "refafter": ra, "close": c1 and c2})
    return ev


def run(tier: str) -> int:
    chk = Check("C19", tier)
    rng = random.Random(1900 + chk.seed)
    for cfg, note in (("MC_C19_avg.cfg", "sample-average: estimate = mean of the rewards received (all sequences <= 5)"),
                      ("MC_C19_half.cfg", "constant rate 1/2"), ("MC_C19_quarter.cfg", "constant rate 1/4, three actions")):
        r = tlc.model_check("MC_Bandit", cfg, workers=8, deadlock=False)
        if not r["ok"]:
            raise tlc.MachineryError(f"{cfg} violates {r['violated']}")
        chk.add_mc(r, note)
    chk.add_mc(tlc.expect_counterexample("MC_Bandit", "MC_C19_mut.cfg", "SampleAverageIsMean", workers=4, deadlock=False),
               "non-vacuity: step size 1/(count+1)")
    traces, meta = [], []
    rewards = [Fraction(0), Fraction(1, 4), Fraction(1, 2), Fraction(3, 4), Fraction(1), Fraction(-1, 2)]
    # (a learning rate of exactly 0 - a frozen agent - and one above 1 are constant rates like any other; only -1 is the sentinel)
    alphas = [None, Fraction(1, 4), Fraction(1, 2), Fraction(1), Fraction(1, 8), Fraction(0), Fraction(2)]
    n_tr = 400 if tier == "quick" else 6000
    with quiet():
        for i in range(n_tr):
            n = rng.choice([1, 2, 3, 5, 8])
            alpha = alphas[i % len(alphas)]
            eps = rng.choice([0.0, 0.0, 0.25, 1.0, 0.5])
            q0 = rng.choice([Fraction(0), Fraction(1, 2), Fraction(-1, 4), Fraction(2)])
            depth = rng.randint(3, 12)
            # (32-bit integers in TLC: bound the number of learn steps so that exact denominators stay small)
            max_learn = {None: 6, Fraction(1, 8): 3, Fraction(1, 4): 5, Fraction(1, 2): 9, Fraction(1): 9, Fraction(0): 9, Fraction(2): 6}[alpha]
            steps, cur = [], Fraction(8)
            for _ in range(depth):
                k = rng.random()
                if k < 0.5 and sum(1 for s in steps if s[0] == "learn") < max_learn:
                    steps.append(("learn", rng.randrange(n), rng.choice(rewards)))
                elif k < 0.8 or k < 0.5:
                    steps.append(("policy",))
                else:
                    if cur == 0:
                        b = rng.choice([Fraction(0), Fraction(1, 2), Fraction(3)])      # a perfect fit was found: nothing improves on it
                    else:
                        b = cur * rng.choice([Fraction(1, 2), Fraction(1), Fraction(2), Fraction(3, 4), Fraction(1, 4), Fraction(0)])
                    steps.append(("reward", b))
                    cur = min(cur, b)
            seed = rng.randrange(10**6)
            traces.append(agent_trace(n, alpha, eps, q0, steps, seed))
            meta.append({"n": n, "alpha": str(alpha), "eps": eps, "q0": str(q0), "seed": seed,
                         "steps": [[s[0], *[str(x) for x in s[1:]]] for s in steps]})
    res = tlc.validate_parallel("BanditTrace", "BanditTrace.cfg", traces, parts=8)
    chk.add_validation(res)
    chk.evaluations = sum(len(t) - 1 for t in traces)
    chk.extra["distinct_nontrivial"] = len({repr(t) for t in traces})
    for t in traces[:3]:
        chk.sample(t)
    for tid, why in res["rejected"].items():
        ev = traces[tid - 1][why["at"] - 1]
        chk.violation(ev["e"], f"{why['why']} (event {why['at']}: {ev})", {"case": meta[tid - 1], "trace": traces[tid - 1], "tlc": why})
    return chk.finish("seeded random sequences of learn / policy / get_reward on the real MABEpsilonGreedy and MABCalibrationEnv: 1-8 actions, "
                      "learning rates {sample-average sentinel, 1/8, 1/4, 1/2, 1}, epsilon {0, .25, .5, 1}, initial values, rewards from a "
                      "dyadic lattice (incl. negative), improving and non-improving best losses; estimates recovered as exact rationals "
                      "(1e-12) and compared by TLC with the rule evaluated in rational arithmetic; twin agent for reproducibility")


def replay(rep: dict) -> int:
    chk = Check("C19", "quick")
    c = rep["case"]
    steps = []
    for s in c["steps"]:
        if s[0] == "learn":
            steps.append(("learn", int(s[1]), Fraction(s[2])))
        elif s[0] == "policy":
            steps.append(("policy",))
        else:
            steps.append(("reward", Fraction(s[1])))
    with quiet():
        t = agent_trace(c["n"], None if c["alpha"] == "None" else Fraction(c["alpha"]), c["eps"], Fraction(c["q0"]), steps, c["seed"])
    res = tlc.validate("BanditTrace", "BanditTrace.cfg", {"traces": [t]})
    chk.add_validation(res)
    for _tid, why in res["rejected"].items():
        chk.violation("replay", why["why"], {"trace": t})
    return chk.finish("replay")
