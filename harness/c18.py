"""C18 - sampler labels in a history can always be mapped back to sampler names (Calibration.tla: idt, SetSamplers, Restore)."""
from __future__ import annotations

import random

from . import calcfg, calcheck
from .common import Check

RELEVANT = {"C18"}


def build(tier: str, rng: random.Random):
    base = calcfg.config("Gen_C18")
    ops = calcheck.maximal(calcheck.tlc_scripts("Gen_C18"))
    scripts = []
    for o in calcheck.sample_scripts(ops, 230 if tier == "quick" else 1000, rng):
        scripts.append(calcheck.to_script(o, base, seed=rng.randrange(1, 10**6), saving=True))
    # longer line-ups with repeated classes, two successive replacements
    for _ in range(30 if tier == "quick" else 300):
        lu = [{"cls": rng.choice("ABCD"), "bs": 1} for _ in range(rng.randint(1, 4))]
        alt1 = [{"cls": rng.choice("ABCDEF"), "bs": 1} for _ in range(rng.randint(1, 3))]
        alt2 = [{"cls": rng.choice("CDEFG"), "bs": 1} for _ in range(rng.randint(1, 3))]
        ops2 = [["call", rng.randint(1, 3)], [rng.choice(["set", "setsched"]), alt1], ["call", rng.randint(1, 3)]]
        if rng.random() < 0.6:
            ops2 += [["restore"], ["call", 1]]
        ops2 += [[rng.choice(["set", "setsched"]), alt2], ["call", rng.randint(1, 2)]]
        if rng.random() < 0.5:
            ops2 += [["restore"], ["call", 1]]
        cfg = {"lineup": lu, "alts": [alt1, alt2], "kind": "rr", "E": 1, "convon": False, "verbose": False, "saving": True,
               "seed": rng.randrange(1, 10**6), "njobs": 1, "prec": 3}
        scripts.append({"cfg": cfg, "ops": ops2, "loss": {"seq": [], "default": 6}, "faults": [], "agent": [0], "tlc_ops": ops2})
    return scripts, len(ops)


def run(tier: str) -> int:
    chk = Check("C18", tier)
    rng = random.Random(1800 + chk.seed)
    calcheck.design(chk, ["MC_C18", "MC_C18_mut"])
    scripts, n_avail = build(tier, rng)
    chk.extra["tlc_behaviours_available"] = n_avail
    traces = calcheck.execute(scripts)
    chk.evaluations = len(traces)
    for t in traces[:2] + traces[-2:]:
        chk.sample({"lineup": t["cfg"]["lineup"], "ops": t["script"]["tlc_ops"],
                    "tables": [e["table"] for e in t["ev"] if e["e"] == "idle"][-2:]})
    calcheck.validate(chk, traces, relevant=RELEVANT | {"C04"})
    chk.extra["distinct_nontrivial"] = len({repr((t["cfg"]["lineup"], t["script"]["tlc_ops"])) for t in traces})
    return chk.finish("TLC behaviours over {calibrate, set_samplers, create_checkpoint, restore} (1-4 classes, repeated classes, "
                      "replacements between calls) replayed on the real Calibrator; samplers_id_table, method_samp and the names the "
                      "plotting helper recovers from every checkpoint the calibrator wrote are validated by TLC (IdsNeverReassigned, "
                      "LabelNamesProducer, RecoverableFromDisk)")


def replay(rep: dict) -> int:
    chk = Check("C18", "quick")
    traces = calcheck.execute([rep["script"]], procs=1)
    calcheck.validate(chk, traces, relevant=None)
    return chk.finish("replay of a stored script")
