"""Executions of the real Calibrator on configurations of built-in samplers / losses / schedulers whose observable
outcome Calibration.tla declares equal (C01: irrelevant axes; C05: ways of cutting the run); exact projections
(SHA-256 of array bytes) are recorded as `obs` events and validated by TLC against Observable.tla.
"""
from __future__ import annotations

import hashlib
import os
import random
import shutil
import tempfile

import numpy as np

SAMPLERS = ["HaltonSampler", "RSequenceSampler", "RandomUniformSampler", "BestBatchSampler", "ParticleSwarmSampler",
            "CORSSampler", "RandomForestSampler", "XGBoostSampler", "GaussianProcessSampler"]
HISTORY_FREE = ["HaltonSampler", "RSequenceSampler", "RandomUniformSampler"]
LOSSES = ["MinkowskiLoss", "MethodOfMomentsLoss", "FourierLoss", "GslDivLoss", "LikelihoodLoss"]


def ar_model(theta, N, seed):  # noqa: N803
    """cheap stochastic model (importable: joblib ships it to worker processes)"""
    rng = np.random.default_rng(seed)
    th = np.asarray(theta, dtype=float)
    if os.environ.get("VERIF_SLOW_MODEL"):
        import time

        time.sleep(0.004 * (int(abs(float(th[0])) * 1000) % 4))   # run time depends on the parameters: out-of-order completion
    a = float(np.tanh(th[0]))
    b = float(th[1 % len(th)])
    x = np.zeros((N, 2))
    e = rng.standard_normal((N, 2))
    for t in range(1, N):
        x[t, 0] = a * x[t - 1, 0] + e[t, 0] + 0.1 * b
        x[t, 1] = 0.5 * x[t - 1, 1] + e[t, 1] * (1 + 0.1 * float(th[-1]))
    if os.environ.get("VERIF_SCRIBBLE"):
        try:
            theta[...] = 0.0        # the model uses its argument as scratch space
        except (ValueError, TypeError):
            pass
    return x


def ar_model_f32(theta, N, seed):  # noqa: N803
    """the same model returning single-precision series (a simulator written against float32 arrays)"""
    return ar_model(theta, N, seed).astype(np.float32)


def model_for(cfg: dict):
    return ar_model_f32 if cfg.get("f32") else ar_model


def make_sampler(name: str, bs: int, ctor_seed):
    import importlib

    mod = {"HaltonSampler": "halton", "RSequenceSampler": "r_sequence", "RandomUniformSampler": "random_uniform",
           "BestBatchSampler": "best_batch", "ParticleSwarmSampler": "particle_swarm", "CORSSampler": "cors",
           "RandomForestSampler": "random_forest", "XGBoostSampler": "xgboost", "GaussianProcessSampler": "gaussian_process"}[name]
    kw = {"CORSSampler": {"max_samples": 60}, "RandomForestSampler": {"candidate_pool_size": 80, "n_estimators": 10},
          "XGBoostSampler": {"candidate_pool_size": 80, "n_estimators": 5},
          "GaussianProcessSampler": {"candidate_pool_size": 50}}.get(name, {})
    cls = getattr(importlib.import_module(f"black_it.samplers.{mod}"), name)
    return cls(batch_size=bs, random_state=ctor_seed, **kw)


def make_loss(name: str):
    import importlib

    mod = {"MinkowskiLoss": "minkowski", "MethodOfMomentsLoss": "msm", "FourierLoss": "fourier", "GslDivLoss": "gsl_div",
           "LikelihoodLoss": "likelihood"}[name]
    return getattr(importlib.import_module(f"black_it.loss_functions.{mod}"), name)()


def random_config(rng: random.Random, *, rl: bool = False, heavy: bool = True, dims: int | None = None) -> dict:
    d = rng.randint(1, 4)
    if rng.random() < 0.12:
        d = rng.choice([11, 12, 14])        # more than ten parameters
    d = dims or d
    n_s = rng.randint(1, 4)
    names = [rng.choice(HISTORY_FREE)]
    pool = SAMPLERS if heavy else [s for s in SAMPLERS if s not in ("CORSSampler", "GaussianProcessSampler")]
    for _ in range(n_s - 1):
        names.append(rng.choice(pool))
    if rl and "HaltonSampler" not in names and (rng.random() < 0.5 or "BestBatchSampler" in names):
        # (with the RL scheduler the first batch comes from the Halton sampler - of batch size 1 when the scheduler has to add it:
        #  best-batch needs at least its batch size of existing points, so the line-up brings its own, large enough Halton sampler)
        names[0] = "HaltonSampler"
    lineup = [[n, rng.randint(1, 4)] for n in names]
    # best-batch needs at least its batch size of existing points: make the first sampler's batch large enough
    need = max([b for n, b in lineup if n == "BestBatchSampler"] + [2])
    lineup[0][1] = max(lineup[0][1], need)
    if rl:
        for entry in lineup:
            if entry[0] == "HaltonSampler":
                entry[1] = max(entry[1], need)      # whichever Halton sampler the scheduler takes as its bootstrap sampler
    lo = [rng.choice([-1.0, 0.0, 0.5]) for _ in range(d)]
    bounds = [lo, [x + rng.choice([1.0, 2.0]) for x in lo]]
    prec = [rng.choice([0.01, 0.05, 0.001]) for _ in range(d)]
    cfg = {"lineup": lineup, "bounds": bounds, "prec": prec, "E": rng.randint(1, 3), "N": rng.choice([20, 30]),
           "loss": rng.choice(LOSSES), "seed": rng.randrange(1, 2**31), "kind": "rl" if rl else "rr",
           "eps": rng.choice([0.0, 0.3]) if rl else 0.0, "batches": rng.randint(len(lineup) + 1, 2 * len(lineup) + 2)}
    cfg["scribble"] = rng.random() < 0.25       # a model that overwrites its parameter argument after use
    # an explicit sim_length, other than the length of the real series where the loss compares summaries rather than points
    cfg["simextra"] = rng.choice([0, 5, 11])      # (applied in build(), only under the method of moments)
    cfg["convprec"] = rng.choice([None, None, 9, 12])             # a convergence precision that ordinary losses never meet
    cfg["f32"] = rng.random() < 0.25            # the model returns float32 series
    cfg["stale"] = rng.random() < 0.3           # (C05) the saving folder already holds the checkpoint of some other calibration
    return cfg


def build(cfg: dict, *, njobs=1, verbose=False, folder=None, ctor_seeds=False):
    from black_it.calibrator import Calibrator

    samplers = [make_sampler(n, b, (1000 + 7 * i) if ctor_seeds else None) for i, (n, b) in enumerate(cfg["lineup"])]
    real = ar_model([0.3] * len(cfg["prec"]), cfg["N"], 12345)
    kw = {}
    if cfg["kind"] == "rl":
        from black_it.schedulers.rl.agents.epsilon_greedy import MABEpsilonGreedy
        from black_it.schedulers.rl.envs.mab import MABCalibrationEnv
        from black_it.schedulers.rl.rl_scheduler import RLScheduler

        n_eff = len(samplers) + (0 if any(type(s).__name__ == "HaltonSampler" for s in samplers) else 1)
        agent = MABEpsilonGreedy(n_actions=n_eff, alpha=-1, eps=cfg["eps"], random_state=99 if ctor_seeds else None)
        kw["scheduler"] = RLScheduler(samplers, agent=agent, env=MABCalibrationEnv(nb_samplers=n_eff),
                                      random_state=5 if ctor_seeds else None)
    else:
        kw["samplers"] = samplers
    return Calibrator(loss_function=make_loss(cfg["loss"]), real_data=real, model=model_for(cfg), parameters_bounds=cfg["bounds"],
                      parameters_precision=cfg["prec"], ensemble_size=cfg["E"], verbose=verbose, saving_folder=folder,
                      random_state=cfg["seed"], n_jobs=njobs, sim_length=(cfg["N"] + cfg.get("simextra", 0)) if cfg["loss"] == "MethodOfMomentsLoss" else None,
                      convergence_precision=cfg.get("convprec"), **kw)


def _h(*arrays) -> str:
    m = hashlib.sha256()
    for a in arrays:
        a = np.ascontiguousarray(a)
        m.update(str(a.dtype).encode() + str(a.shape).encode())
        m.update(a.tobytes())
    return m.hexdigest()[:16]


def observe(cal, ret=None) -> list[dict]:
    """exact projection of the history, batch by batch, plus the returned arrays"""
    evs = []
    bn = np.asarray(cal.batch_num_samp)
    n = len(cal.params_samp)
    lens = {len(cal.params_samp), len(cal.losses_samp), len(cal.series_samp), len(cal.batch_num_samp), len(cal.method_samp)}
    evs.append({"e": "obs", "k": "aligned", "h": "yes" if lens == {n} and cal.n_sampled_params == n else f"no:{sorted(lens)}"})
    for b in sorted({int(x) for x in bn}):
        idx = np.where(bn == b)[0]
        evs.append({"e": "obs", "k": f"batch:{b}",
                    "h": _h(np.asarray(cal.params_samp, dtype=float)[idx], np.asarray(cal.losses_samp, dtype=float)[idx],
                            np.asarray(cal.series_samp, dtype=float)[idx], np.asarray(cal.method_samp)[idx].astype(np.int64))})
    evs.append({"e": "obs", "k": "batches", "h": str(int(cal.current_batch_index))})
    if ret is not None:
        evs.append({"e": "obs", "k": "ret", "h": _h(np.asarray(ret[0], dtype=float), np.asarray(ret[1], dtype=float))})
    return evs


def _scribble_env(cfg: dict) -> None:
    if cfg.get("scribble"):
        os.environ["VERIF_SCRIBBLE"] = "1"
    else:
        os.environ.pop("VERIF_SCRIBBLE", None)


def run_variant(cfg: dict, axes: dict) -> list[dict]:
    """one execution of cfg under the given irrelevant axes (C01)"""
    from .common import quiet

    folder = tempfile.mkdtemp(prefix="verif-c01-") if axes.get("saving") else None
    if axes.get("njobs", 1) > 1:
        os.environ["VERIF_SLOW_MODEL"] = "1"       # (inherited by the worker processes started for this variant)
    else:
        os.environ.pop("VERIF_SLOW_MODEL", None)
    _scribble_env(cfg)
    evs = [{"e": "variant", "axes": ",".join(f"{k}={v}" for k, v in sorted(axes.items()))}]
    from .plugins import Hang, _watchdog

    orig_seed = None
    if cfg["kind"] == "rl":
        # adversarial timing for whatever runs concurrently with the seed cascade (an agent thread, if one were already running):
        # the cascade starts 30 ms late.  On the unchanged tree nothing runs yet, the delay changes nothing.
        import time

        from black_it.calibrator import Calibrator

        orig_seed = Calibrator._set_samplers_seeds  # noqa: SLF001

        def late(self):
            time.sleep(0.03)
            return orig_seed(self)
        Calibrator._set_samplers_seeds = late  # noqa: SLF001
    try:
        with quiet(), _watchdog(900):
            cal = build(cfg, njobs=axes.get("njobs", 1), verbose=axes.get("verbose", False), folder=folder,
                        ctor_seeds=axes.get("ctor", False))
            ret = cal.calibrate(cfg["batches"])
        evs += observe(cal, ret)
    except Hang:
        evs.append({"e": "crash", "what": "calibrate() did not return (watchdog)"})
    except Exception as e:  # noqa: BLE001
        evs.append({"e": "crash", "what": f"{type(e).__name__}: {e}"[:200]})
    finally:
        if orig_seed is not None:
            from black_it.calibrator import Calibrator

            Calibrator._set_samplers_seeds = orig_seed  # noqa: SLF001
        if folder:
            shutil.rmtree(folder, ignore_errors=True)
    return evs


def run_split(cfg: dict, cuts: list[tuple[int, str]]) -> list[dict]:
    """C05: the same n batches cut into segments; cuts = [(length, boundary kind after it: 'live' | 'restore' | 'end')]"""
    from black_it.calibrator import Calibrator

    from .common import quiet

    folder = tempfile.mkdtemp(prefix="verif-c05-")
    _scribble_env(cfg)
    evs = [{"e": "variant", "axes": "+".join(f"{n}{k[0]}" for n, k in cuts)}]
    from .plugins import Hang, _watchdog

    try:
        with quiet(), _watchdog(900):
            if cfg.get("stale"):
                other = {**cfg, "loss": [x for x in LOSSES if x != cfg["loss"]][cfg["seed"] % (len(LOSSES) - 1)], "seed": cfg["seed"] // 2 + 1}
                build(other, folder=folder).calibrate(1)
            cal = build(cfg, folder=folder)
            for n, kind in cuts:
                cal.calibrate(n)
                if kind == "restore":
                    cal = Calibrator.restore_from_checkpoint(folder, model=model_for(cfg))
        evs += observe(cal)
    except Hang:
        evs.append({"e": "crash", "what": "calibrate() did not return (watchdog)"})
    except Exception as e:  # noqa: BLE001
        evs.append({"e": "crash", "what": f"{type(e).__name__}: {e}"[:200]})
    finally:
        shutil.rmtree(folder, ignore_errors=True)
    return evs


# ---- process-pool entry points --------------------------------------------------------------------
def _c01_worker(args):
    cfg, variants, repo = args
    os.environ["VERIF_REPO"] = repo
    from . import common

    common.use_repo()
    ev = []
    for ax in variants:
        ev += run_variant(cfg, ax)
    common.shutdown_loky()
    return {"cfg": cfg, "ev": ev, "variants": variants}


def _c05_worker(args):
    cfg, splits, repo = args
    os.environ["VERIF_REPO"] = repo
    from . import common

    common.use_repo()
    ev = []
    for cuts in splits:
        ev += run_split(cfg, cuts)
    common.shutdown_loky()
    return {"cfg": cfg, "ev": ev, "splits": splits}


def _c01_history_worker(args):
    """C01 under different *process histories*: the same configuration in a fresh interpreter, and in an interpreter that ran other
    calibrations (fewer / more parameters, same sampler classes) before"""
    cfg, warm, label, repo = args
    os.environ["VERIF_REPO"] = repo
    from . import common

    common.use_repo()
    for w in warm:
        run_variant(w, {"njobs": 1})
    ev = run_variant(cfg, {"njobs": 1})
    ev[0]["axes"] = label
    common.shutdown_loky()
    return ev


def _segment_worker(args):
    """one segment of a run in its own interpreter: build + calibrate(n), or restore from the folder + calibrate(n)"""
    cfg, folder, first, n, repo = args
    os.environ["VERIF_REPO"] = repo
    from . import common

    common.use_repo()
    from black_it.calibrator import Calibrator

    try:
        with common.quiet():
            cal = build(cfg, folder=folder) if first else Calibrator.restore_from_checkpoint(folder, model=model_for(cfg))
            cal.calibrate(n)
        ev = observe(cal)
    except Exception as e:  # noqa: BLE001
        ev = [{"e": "crash", "what": f"{type(e).__name__}: {e}"[:200]}]
    common.shutdown_loky()
    return ev


def run_split_fresh(cfg: dict, parts: list[int], repo: str) -> list[dict]:
    """C05 across process boundaries: every segment runs in a fresh interpreter and resumes from the checkpoint on disk"""
    import multiprocessing as mp
    from concurrent.futures import ProcessPoolExecutor

    folder = tempfile.mkdtemp(prefix="verif-c05f-")
    ev = [{"e": "variant", "axes": "fresh-process:" + "+".join(str(p) for p in parts)}]
    try:
        ctx = mp.get_context("spawn")
        last = None
        for i, n in enumerate(parts):
            with ProcessPoolExecutor(max_workers=1, mp_context=ctx) as ex:
                last = ex.submit(_segment_worker, (cfg, folder, i == 0, n, repo)).result()
            if last and last[0]["e"] == "crash":
                break
        ev += last or []
    finally:
        shutil.rmtree(folder, ignore_errors=True)
    return ev


def _c05_fresh_worker(args):
    cfg, splits, repo = args
    os.environ["VERIF_REPO"] = repo
    from . import common

    common.use_repo()
    ev = run_split(cfg, [(cfg["batches"], "end")])
    for parts in splits:
        ev += run_split_fresh(cfg, parts, repo)
    common.shutdown_loky()
    return {"cfg": cfg, "ev": ev, "splits": [[(p, "fresh") for p in parts] for parts in splits]}


def fresh_map(fn, jobs, procs: int):
    """every job in its own fresh interpreter"""
    import multiprocessing as mp
    from concurrent.futures import ProcessPoolExecutor

    if not jobs:
        return []
    ctx = mp.get_context("spawn")
    with ProcessPoolExecutor(max_workers=max(1, min(procs, len(jobs))), mp_context=ctx, max_tasks_per_child=1) as ex:
        return list(ex.map(fn, jobs))


def pool_map(fn, jobs, procs: int):
    import multiprocessing as mp
    from concurrent.futures import ProcessPoolExecutor

    if not jobs:
        return []
    ctx = mp.get_context("spawn")
    with ProcessPoolExecutor(max_workers=max(1, min(procs, len(jobs))), mp_context=ctx) as ex:
        return list(ex.map(fn, jobs))


def compositions(n: int):
    """all compositions of n into positive parts"""
    if n == 0:
        yield []
        return
    for first in range(1, n + 1):
        for rest in compositions(n - first):
            yield [first, *rest]
