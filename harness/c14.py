"""C14 - early stopping happens exactly when the best loss rounds to zero (Calibration.tla: StopExactly, TriggerBatchRecorded)."""
from __future__ import annotations

import random

from . import calcfg, calcheck
from .common import Check

RELEVANT = {"C14"}


def build(tier: str, rng: random.Random):
    base = calcfg.config("Gen_C14")
    ops = calcheck.maximal(calcheck.tlc_scripts("Gen_C14"))
    scripts = []
    precs = list(range(13))
    per = 2 if tier == "quick" else 8
    for o in ops:
        for _ in range(per):
            scripts.append(calcheck.to_script(o, base, seed=rng.randrange(1, 10**6), verbose=rng.random() < 0.5,
                                              saving=rng.random() < 0.5, prec=rng.choice(precs)))
    # without a precision: exactly n batches whatever the losses
    off = {**base, "convon": False}
    for o in calcheck.sample_scripts(ops, 30 if tier == "quick" else 150, rng):
        scripts.append(calcheck.to_script(o, off, seed=rng.randrange(1, 10**6), verbose=rng.random() < 0.5, saving=rng.random() < 0.5))
    # long runs on a declared search space of 16 points only (samplers that keep proposing are the user's business: the number of
    # batches is the requested one, with or without a precision, also once more points were sampled than the grid holds)
    for k in range(6 if tier == "quick" else 40):
        conv = k % 2 == 1
        lu = [{"cls": "A", "bs": 3}, {"cls": "B", "bs": rng.choice([2, 3])}]
        calls = [["call", rng.randint(3, 5)], ["call", rng.randint(3, 5)]] + ([["call", 2]] if k % 3 == 0 else [])
        nloss = sum(c[1] for c in calls) * 3
        sc = calcheck.to_script(calls + [["loss", rng.choice([6, 3, 17])] for _ in range(nloss)],
                                {**base, "lineup": lu, "convon": conv, "E": 1}, seed=rng.randrange(1, 10**6),
                                verbose=rng.random() < 0.5, saving=rng.random() < 0.5, prec=rng.choice(precs))
        sc["cfg"]["tinyspace"] = True
        scripts.append(sc)
    return scripts, len(ops)


def run(tier: str) -> int:
    chk = Check("C14", tier)
    rng = random.Random(1400 + chk.seed)
    calcheck.design(chk, ["MC_C14", "MC_C14_off", "MC_C14_mut", "MC_C14_mut2"] + (["MC_C14_thorough"] if tier == "thorough" else []))
    scripts, nops = build(tier, rng)
    chk.extra["tlc_behaviours_available"] = nops
    traces = calcheck.execute(scripts)
    chk.evaluations = len(traces)
    for t in traces[:3]:
        chk.sample({"ops": t["script"]["tlc_ops"], "prec": t["script"]["cfg"]["prec"], "verbose": t["cfg"]["verbose"],
                    "saving": t["cfg"]["saving"], "events": [e["e"] for e in t["ev"]]})
    calcheck.validate(chk, traces, relevant=RELEVANT | {"C04"})
    chk.extra["distinct_nontrivial"] = len({repr((t["script"]["tlc_ops"], t["cfg"]["verbose"], t["cfg"]["saving"])) for t in traces})
    return chk.finish("every behaviour of Gen_C14 (all loss scripts over {-20, 0, 6} x splits into <= 2 calls, <= 4 batches) replayed "
                      "with verbose/saving on and off and precisions 0-12 (concrete losses a*10^-(p+1)); StopExactly and "
                      "TriggerBatchRecorded evaluated by TLC on every trace, the checkpoint read back from disk after every call",
                      exhaustive=True)


def replay(rep: dict) -> int:
    chk = Check("C14", "quick")
    traces = calcheck.execute([rep["script"]], procs=1)
    calcheck.validate(chk, traces, relevant=None)
    return chk.finish("replay of a stored script")
