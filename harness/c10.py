"""C10 - the RL scheduler-agent exchange is correct under every thread interleaving.

design   : TLC explores RLExchange.tla (PlusCal, two processes) exhaustively for the repaired protocol (all invariants,
           deadlock freedom, termination under weak fairness) and refutes the pinned protocol and each single pinned aspect.
spec->code: the state graph of the repaired protocol is dumped; an edge-covering set of paths plus seeded random walks are
           replayed as *schedules* on the real RLScheduler / MABCalibrationEnv / agent under the cooperative controller.
code->spec: the totally ordered event trace of every controlled execution is validated by TLC (RLExchangeTrace.tla):
           FIFO queues, phantom learns, attribution, exactly-once, leftovers, deadlock, reward from the batch's own outcome.
"""
from __future__ import annotations

import random
import re
import threading
from collections import defaultdict, deque

import numpy as np

from . import threads, tlc
from .common import Check, quiet

SYNC = {"Start1": ("cal", "flagwrite"), "Start2": ("cal", "tstart"), "Get": ("cal", "get:act"), "Upd": ("cal", "put:out"),
        "End1": ("cal", "flagwrite"), "End2": ("cal", "put:out"), "Join": ("cal", "join"),
        "Chk": ("agent", "flagread"), "Put": ("agent", "put:act"), "Rcv": ("agent", "get:out")}


# ------------------------------------------------------------------------------------------------
# TLC graph -> paths
# ------------------------------------------------------------------------------------------------
class Graph:
    def __init__(self, nodes, edges, inits):
        self.nodes = nodes
        self.init = inits[0]
        self.out = defaultdict(list)
        for s, d, lab in edges:
            if lab != "Terminating" and s != d:
                self.out[s].append((d, lab))
        for k in self.out:
            self.out[k].sort()
        self.edges = [(s, d, lab) for s in self.out for d, lab in self.out[s]]

    def field(self, node, name):
        m = re.search(r"/\\ %s = (.*)" % name, self.nodes[node])
        return m.group(1).strip() if m else None

    def cover_paths(self, rng: random.Random, limit: int) -> list[list[tuple]]:
        """paths from the initial state to a terminal state that together traverse every edge"""
        uncovered = set(self.edges)
        rev = defaultdict(list)
        for s, d, lab in self.edges:
            rev[d].append(s)
        paths = []
        while uncovered and len(paths) < limit:
            # distance of every node to the source of the nearest uncovered edge
            dist = {}
            dq = deque()
            for s, d, lab in uncovered:
                if s not in dist:
                    dist[s] = 0
                    dq.append(s)
            while dq:
                x = dq.popleft()
                for p in rev[x]:
                    if p not in dist:
                        dist[p] = dist[x] + 1
                        dq.append(p)
            node, path = self.init, []
            while self.out[node]:
                cands = [(d, lab) for d, lab in self.out[node] if (node, d, lab) in uncovered]
                if cands:
                    d, lab = rng.choice(cands)
                else:
                    best = min((dist.get(d, 10**9) for d, _ in self.out[node]))
                    d, lab = rng.choice([(d, lab) for d, lab in self.out[node] if dist.get(d, 10**9) == best])
                uncovered.discard((node, d, lab))
                path.append((node, d, lab))
                node = d
            paths.append(path)
        return paths

    def random_path(self, rng: random.Random) -> list[tuple]:
        node, path = self.init, []
        while self.out[node]:
            d, lab = rng.choice(self.out[node])
            path.append((node, d, lab))
            node = d
        return path

    def to_schedule(self, path):
        """path -> (batches per session, schedule of (thread, kind, optional))"""
        plan, sched = [], []
        for s, d, lab in path:
            if lab == "Sess" and self.field(d, "pc") and '"Done"' not in self.field(d, "pc").split(",")[0]:
                plan.append(int(self.field(d, "todo")))
            if lab in SYNC:
                if lab == "Upd" and self.field(s, "bestSet") == "FALSE":
                    continue                  # bootstrap batch: nothing is put
                th, kind = SYNC[lab]
                sched.append((th, kind, lab == "Chk"))
        return plan, sched


# ------------------------------------------------------------------------------------------------
# controlled execution of the real scheduler
# ------------------------------------------------------------------------------------------------
def make_agent(kind: str, script, n_actions: int, ctl: threads.Controller, seed: int):
    from black_it.schedulers.rl.agents.base import Agent
    from black_it.schedulers.rl.agents.epsilon_greedy import MABEpsilonGreedy

    if kind == "scripted":
        class A(Agent):
            def __init__(self):
                super().__init__(random_state=seed)
                self.n = 0
                self.nl = 0

            def policy(self, state):  # noqa: ARG002
                self.n += 1
                a = script[self.nl % len(script)]
                ctl.ghost["cid"] = self.n
                ctl.log({"e": "policy", "cid": self.n, "a": a})
                return a

            def learn(self, state, action, reward, next_state):  # noqa: ARG002
                self.nl += 1
                r = float(reward) * 4096
                ctl.log({"e": "learn", "cid": self.n, "a": int(action), "r": int(r) if float(int(r)) == r else -1})
        return A()

    class G(MABEpsilonGreedy):
        def policy(self, obs):
            a = super().policy(obs)
            self._n = getattr(self, "_n", 0) + 1
            ctl.ghost["cid"] = self._n
            ctl.log({"e": "policy", "cid": self._n, "a": int(a)})
            return a

        def learn(self, state, action, reward, next_state):
            super().learn(state, action, reward, next_state)
            r = float(reward) * 4096
            ctl.log({"e": "learn", "cid": self._n, "a": int(action), "r": int(r) if float(int(r)) == r else -1})
    return G(n_actions=n_actions, alpha=-1, eps=0.3 if kind == "eps" else 0.0, random_state=seed)


class _PlanLoss:
    """loss 'function' of the calibrate-level runs: every point of batch b gets losses[b]"""

    def __init__(self, losses, counter):
        self.losses, self.counter = losses, counter

    def compute_loss(self, sim_data_ensemble, real_data):  # noqa: ARG002
        return float(self.losses[self.counter[0]])


def _plan_model(theta, N, seed):  # noqa: N803, ARG001
    return np.zeros((N, 1))


def run_controlled(plan, losses, script, schedule, *, agent_kind="scripted", seed=0, rng=None, via_calibrate=False, prefer=None):
    """one controlled execution; returns {"ev": [...], "grants": [...], "exact": bool, "script": [...]}"""
    from black_it.samplers.halton import HaltonSampler
    from black_it.samplers.random_uniform import RandomUniformSampler
    from black_it.schedulers.rl.envs.mab import MABCalibrationEnv

    rng = rng or random.Random(seed)
    ctl = threads.Controller()
    threads.CTL = ctl
    try:
        samplers = [HaltonSampler(batch_size=1), RandomUniformSampler(batch_size=1), RandomUniformSampler(batch_size=2)]
        agent = make_agent(agent_kind, script, len(samplers), ctl, seed)
        env = MABCalibrationEnv(nb_samplers=len(samplers))
        with quiet():
            sched = threads.make_scheduler(samplers, agent, env, random_state=seed)
        state = {"error": None}

        cal = None
        bcount = [0]
        if via_calibrate:
            # the same exchange driven by Calibrator.calibrate (one call per session): seeding, sampling, model and loss included
            from black_it.calibrator import Calibrator

            ctl.ghost["park_begin"] = True
            og, ou = sched.get_next_sampler, sched.update

            def get_next():
                ctl.ghost["batch"] = bcount[0]
                ctl.ghost.pop("got", None)
                smp = og()
                idx = [i for i, x in enumerate(sched.samplers) if x is smp][0]
                g = ctl.ghost.pop("got", None)
                if g is not None:
                    ctl.log({"e": "get", "cid": g["cid"], "a": g["a"], "batch": bcount[0], "sampler": idx})
                return smp

            def upd(batch_id, new_params, new_losses, new_simulated_data):
                mark = len(ctl.events)
                ou(batch_id, new_params, new_losses, new_simulated_data)
                if not any(e["e"] == "out" for e in ctl.events[mark:]):
                    ctl.log({"e": "boot", "batch": bcount[0], "best": int(losses[bcount[0]])})
                bcount[0] += 1

            sched.get_next_sampler, sched.update = get_next, upd
            with quiet():
                cal = Calibrator(loss_function=_PlanLoss(losses, bcount), real_data=np.zeros((4, 1)), model=_plan_model,
                                 parameters_bounds=[[0.0], [1.0]], parameters_precision=[0.001], ensemble_size=1,
                                 scheduler=sched, random_state=seed, n_jobs=1, saving_folder=None, verbose=False)

        def cal_body():
            ctl.bind("cal")
            b = 0
            try:
                for n in plan:
                    ctl.log({"e": "sess"})
                    if cal is not None:
                        cal.calibrate(n)
                        dr = ctl.ghost.pop("drained", 0)
                        if dr:
                            ctl.log({"e": "drain", "n": dr})
                        ctl.log({"e": "idle", "actq": env._out_queue.qsize(), "outq": env._in_queue.qsize(),  # noqa: SLF001
                                 "alive": bool("agent" in ctl.st and not ctl.st["agent"]["done"])})
                        continue
                    with sched.session():
                        for _ in range(n):
                            ctl.ghost["batch"] = b
                            ctl.ghost.pop("got", None)
                            s = sched.get_next_sampler()
                            idx = [i for i, x in enumerate(sched.samplers) if x is s][0]
                            g = ctl.ghost.pop("got", None)
                            if g is not None:
                                ctl.log({"e": "get", "cid": g["cid"], "a": g["a"], "batch": b, "sampler": idx})
                            mark = len(ctl.events)
                            # a batch of 1-3 points: the batch's best loss is losses[b], the other points are worse, in any position
                            extra = [float(losses[b]) * k for k in ((), (2,), (4, 2))[(b + seed) % 3]] if losses[b] > 0 else []
                            ls = extra[:1] + [float(losses[b])] + extra[1:]
                            ctl.ghost["bmin"] = int(losses[b])
                            sched.update(b, np.array([[float(b) + 0.25 * i] for i in range(len(ls))]), np.array(ls), None)
                            if not any(e["e"] == "out" for e in ctl.events[mark:]):
                                ctl.log({"e": "boot", "batch": b, "best": int(losses[b]), "bmin": int(losses[b])})
                            b += 1
                    dr = ctl.ghost.pop("drained", 0)
                    if dr:
                        ctl.log({"e": "drain", "n": dr})
                    ctl.log({"e": "idle", "actq": env._out_queue.qsize(), "outq": env._in_queue.qsize(),  # noqa: SLF001
                             "alive": bool("agent" in ctl.st and not ctl.st["agent"]["done"])})
            except threads.Aborted:
                pass
            except BaseException as e:  # noqa: BLE001
                state["error"] = repr(e)[:300]
                ctl.log({"e": "cal-crash", "what": state["error"]})
            finally:
                ctl.finish("cal")

        ctl.register("cal")
        t = threading.Thread(target=cal_body, daemon=True)
        t.start()
        i, exact = 0, True
        while True:
            if not ctl.quiesce():
                # a controlled thread neither reached its next synchronisation point nor finished within the watchdog (30 s for steps
                # that take microseconds): it spins inside the code under test - no progress, reported like a deadlock
                ctl.log({"e": "deadlock", "parked": ctl.parked(), "spinning": True})
                ctl.abort_all()
                break
            en = ctl.enabled()
            if not en:
                if ctl.all_done():
                    break
                ctl.log({"e": "deadlock", "parked": ctl.parked()})
                ctl.abort_all()
                break
            choice = None
            while i < len(schedule):
                th, kind, optional = schedule[i]
                i += 1
                hit = [n for n, k in en if n == th and k == kind]
                if hit:
                    choice = th
                    break
                if not optional:
                    exact = False
                    if any(n == th for n, _ in en):      # same thread, different operation: still follow the thread order
                        choice = th
                        break
            if choice is None:
                exact = exact and i >= len(schedule) and False
                pref = [n for n, _ in en if n == prefer]
                choice = pref[0] if pref else rng.choice(sorted(en))[0]
            ctl.grant(choice)
        t.join(5)
        left = [x for x in schedule[i:] if not x[2]]
        exact = exact and not left
        return {"ev": ctl.events, "grants": ctl.grants, "exact": exact, "script": list(script), "plan": plan,
                "losses": [int(x) for x in losses], "agent": agent_kind, "via": bool(via_calibrate), "seed": seed}
    finally:
        threads.CTL = None
        threads.restore_module()


# ------------------------------------------------------------------------------------------------
# free-running execution: real queue.Queue, real threading.Thread, per-thread logs, no controller
# ------------------------------------------------------------------------------------------------
def run_free(plan, losses, script, *, agent_kind="scripted", seed=0, jitter=0):
    import queue
    import sys
    import time

    from black_it.samplers.halton import HaltonSampler
    from black_it.samplers.random_uniform import RandomUniformSampler
    from black_it.schedulers.rl.envs.mab import MABCalibrationEnv
    from black_it.schedulers.rl.rl_scheduler import RLScheduler

    logs = {"cal": [], "agent": []}
    ghost = {"cid": 0, "batch": 0}
    jr = random.Random(jitter)
    cal_ident = threading.get_ident()

    def who():
        return "cal" if threading.get_ident() == cal_ident else "agent"

    def nap():
        if jitter and jr.random() < 0.3:
            time.sleep(jr.choice([0, 0, 1e-4, 1e-3]))

    class LogQueue(queue.Queue):
        def __init__(self, name):
            super().__init__()
            self.qname = name

        def put(self, x, block=True, timeout=None):
            nap()
            if self.qname == "act":
                g = {"cid": ghost["cid"], "a": int(x)}
                logs[who()].append({"e": "put", **g})
            elif x is None:
                g = {"kind": "end"}
                logs[who()].append({"e": "end"})
            else:
                g = {"kind": "out", "batch": ghost["batch"], "best": threads._scaled(x[1])}  # noqa: SLF001
                logs[who()].append({"e": "out", "batch": g["batch"], "best": g["best"]})
            super().put((x, g), block, timeout)      # the event is logged BEFORE the message becomes visible to the other thread

        def get(self, block=True, timeout=None):
            nap()
            x, g = super().get(block, timeout)
            if self.qname == "act":
                ghost["got"] = g
            else:
                logs[who()].append({"e": "rcv", "kind": g["kind"], "batch": g.get("batch", -1)})
            return x

        def get_nowait(self):
            x, g = super().get(False)
            ghost["drained"] = ghost.get("drained", 0) + 1
            return x

    class Shim:
        events = logs
    ctl = type("L", (), {"ghost": ghost, "log": staticmethod(lambda ev: logs[who()].append(ev))})()
    samplers = [HaltonSampler(batch_size=1), RandomUniformSampler(batch_size=1), RandomUniformSampler(batch_size=2)]
    agent = make_agent(agent_kind, script, len(samplers), ctl, seed)
    env = MABCalibrationEnv(nb_samplers=len(samplers))
    env._out_queue = LogQueue("act")   # noqa: SLF001
    env._in_queue = LogQueue("out")    # noqa: SLF001
    old_si = sys.getswitchinterval()
    sys.setswitchinterval(1e-5 if jitter else old_si)
    try:
        with quiet():
            sched = RLScheduler(samplers, agent=agent, env=env, random_state=seed)
        orig_train = sched._train  # noqa: SLF001

        def train():
            try:
                orig_train()
            finally:
                logs["agent"].append({"e": "exit"})
        sched._train = train  # noqa: SLF001
        b = 0
        watchdog = threading.Timer(60.0, lambda: None)
        for n in plan:
            logs["cal"].append({"e": "sess"})
            with sched.session():
                logs["cal"].append({"e": "tstart"})
                for _ in range(n):
                    ghost["batch"] = b
                    ghost.pop("got", None)
                    smp = sched.get_next_sampler()
                    idx = [i for i, x in enumerate(sched.samplers) if x is smp][0]
                    g = ghost.pop("got", None)
                    if g is not None:
                        logs["cal"].append({"e": "get", "cid": g["cid"], "a": g["a"], "batch": b, "sampler": idx})
                    mark = len(logs["cal"])
                    nap()
                    sched.update(b, np.array([[float(b)]]), np.array([float(losses[b])]), None)
                    if not any(e["e"] == "out" for e in logs["cal"][mark:]):
                        logs["cal"].append({"e": "boot", "batch": b, "best": int(losses[b])})
                    b += 1
            logs["cal"].append({"e": "join"})
            dr = ghost.pop("drained", 0)
            if dr:
                logs["cal"].append({"e": "drain", "n": dr})
            alive = any(t.is_alive() and t is not threading.current_thread() and not t.daemon and t.name.startswith("Thread")
                        for t in threading.enumerate())
            logs["cal"].append({"e": "idle", "actq": env._out_queue.qsize(), "outq": env._in_queue.qsize(), "alive": bool(alive)})  # noqa: SLF001
        del watchdog
    finally:
        sys.setswitchinterval(old_si)
    return {"cal": logs["cal"], "agent": logs["agent"], "script": list(script) if agent_kind == "scripted" else [-1], "plan": plan,
            "losses": [int(x) for x in losses], "agent_kind": agent_kind, "seed": seed, "jitter": jitter}


def _free_worker(args):
    import os

    jobs, repo = args
    os.environ["VERIF_REPO"] = repo
    from . import common

    common.use_repo()
    out = []
    for j in jobs:
        try:
            out.append(run_free(j["plan"], j["losses"], j["script"], agent_kind=j["agent"], seed=j["seed"], jitter=j["jitter"]))
        except Exception as e:  # noqa: BLE001
            out.append({"cal": [{"e": "cal-crash", "what": repr(e)[:200]}], "agent": [], "script": [-1], **{k: j[k] for k in ("plan", "losses", "seed", "jitter")},
                        "agent_kind": j["agent"]})
    return out


def free_runs(n: int, rng: random.Random):
    """free-running executions in worker processes (a deadlock there must not hang the check: hard time limit per worker)"""
    import multiprocessing as mp

    from .common import REPO

    jobs = []
    for i in range(n):
        plan = [rng.randint(0, 3) for _ in range(rng.randint(1, 3))]
        jobs.append({"plan": plan, "losses": losses_for(sum(plan), rng), "script": [0, 1, 0, 2][:rng.randint(2, 4)],
                     "agent": "scripted" if i % 4 else "eps", "seed": rng.randrange(10**6), "jitter": rng.randrange(1, 10**6) if i % 3 else 0})
    procs = 8
    chunks = [jobs[i::procs] for i in range(procs)]
    ctx = mp.get_context("spawn")
    with ctx.Pool(procs) as pool:
        import time as _t

        asyncs = [pool.apply_async(_free_worker, ((c, str(REPO)),)) for c in chunks]
        parts = []
        deadline = _t.time() + 150          # one shared limit: a deadlocked execution blocks its worker for good
        for c, a in zip(chunks, asyncs):
            try:
                parts.append(a.get(timeout=max(1.0, deadline - _t.time())))
            except mp.TimeoutError:
                parts.append([{"cal": [{"e": "deadlock"}], "agent": [], "script": [-1], "plan": j["plan"], "losses": j["losses"],
                               "seed": j["seed"], "jitter": j["jitter"], "agent_kind": j["agent"]} for j in c])
        pool.terminate()
    res = [None] * len(jobs)
    for ci, part in enumerate(parts):
        for k, r in enumerate(part):
            res[ci + k * procs] = r
    return res


def losses_for(nb: int, rng: random.Random) -> list[int]:
    """best-new-loss per batch over powers of two (exact float arithmetic): improving and non-improving steps"""
    cur, out = 2**12, []
    for _ in range(nb + 1):
        step = rng.choice(["down", "down", "same", "up"])
        if step == "down" and cur > 4:
            cur //= 2
            out.append(cur)
        elif step == "same":
            out.append(cur)
        else:
            out.append(cur * 2)
    return out


# ------------------------------------------------------------------------------------------------
def run(tier: str) -> int:
    chk = Check("C10", tier)
    rng = random.Random(1000 + chk.seed)
    # ---- design ----
    fixed = "MC_C10_fixed.cfg" if tier == "quick" else "MC_C10_fixed_thorough.cfg"
    res = tlc.model_check("MC_RLExchange", fixed, workers=8, timeout=900)
    if not res["ok"]:
        raise tlc.MachineryError(f"repaired protocol violates {res['violated']}:\n{res.get('out', '')[-2000:]}")
    chk.add_mc(res, "repaired protocol: all invariants, no deadlock, termination under weak fairness; 1-3 sessions x 0-3 batches")
    for cfg, what in (("MC_C10_pinned.cfg", "pinned protocol"), ("MC_C10_m_flag.cfg", "agent loop exits on the racy flag"),
                      ("MC_C10_m_learn.cfg", "learn() on the end marker"), ("MC_C10_m_drain.cfg", "action queue not drained"),
                      ("MC_C10_m_reward.cfg", "the reward computation raises for some outcome (agent thread dies silently)")):
        r = tlc.model_check("MC_RLExchange", cfg, workers=4, timeout=600)
        if r["violated"] is None:
            raise tlc.MachineryError(f"vacuity: {cfg} ({what}) not refuted")
        chk.add_mc(r, f"non-vacuity: {what} refuted by {r['violated']}")
    # ---- the same protocol without any bound on sessions / batches (finite abstraction: sequence numbers mod 4, epoch bit) ----
    ra = tlc.model_check("RLExchangeAbs", "MC_C10_abs.cfg", workers=8, timeout=900)
    if not ra["ok"]:
        raise tlc.MachineryError(f"unbounded abstraction violates {ra['violated']}:\n{ra.get('out', '')[-2000:]}")
    chk.add_mc(ra, "ANY number of sessions and batches (complete finite state graph of RLExchangeAbs): no phantom learn, no stale action, "
                   "attribution, nothing lost, no leftover, queues bounded, no deadlock, progress under weak fairness")
    rp = tlc.model_check("RLExchangeAbs", "MC_C10_abs_pinned.cfg", workers=4, timeout=600)
    if rp["violated"] is None:
        raise tlc.MachineryError("vacuity: pinned protocol not refuted in the unbounded abstraction")
    chk.add_mc(rp, f"non-vacuity: pinned protocol refuted in the abstraction by {rp['violated']}")
    # ---- spec -> code: schedules from the state graph ----
    nodes, edges, inits, _stats = tlc.dump_graph("MC_RLExchange", "MC_C10_fixed.cfg")
    g = Graph(nodes, edges, inits)
    paths = g.cover_paths(rng, limit=4000)
    n_cover = len(paths)
    n_walks = 300 if tier == "quick" else 6000
    paths += [g.random_path(rng) for _ in range(n_walks)]
    script = [0, 1, 0]
    runs, covered, exact_n, n_cal = [], set(), 0, 0
    with quiet():
        for pi, path in enumerate(paths):
            plan, sched = g.to_schedule(path)
            losses = losses_for(sum(plan), rng)
            kind = "scripted" if pi % 5 else ("eps" if pi % 10 else "greedy")
            sd = rng.randrange(10**6)
            r = run_controlled(plan, losses, script, sched, agent_kind=kind, seed=sd, rng=rng)
            r["path_len"] = len(path)
            runs.append(r)
            if kind != "scripted":
                # same agent, seed, plan, losses under a different (random) schedule: must execute the same samplers
                twin = run_controlled(plan, losses, script, [], agent_kind=kind, seed=sd, rng=rng)
                twin["ref"] = [e["a"] for e in r["ev"] if e["e"] == "get"]
                twin["exact"] = False
                runs.append(twin)
            if r["exact"]:
                exact_n += 1
                covered |= set(path)
            if pi % 7 == 3 and sum(plan):
                # the exchange as Calibrator.calibrate drives it (one call per session), epsilon-greedy agent, under the two extreme
                # schedules (agent thread always first / calibration thread always first): the same samplers must run
                sd = rng.randrange(10**6)
                a = run_controlled(plan, losses, script, [], agent_kind="eps", seed=sd, rng=rng, via_calibrate=True, prefer="agent")
                b2 = run_controlled(plan, losses, script, [], agent_kind="eps", seed=sd, rng=rng, via_calibrate=True, prefer="cal")
                b2["ref"] = [e["a"] for e in a["ev"] if e["e"] == "get"]
                a["exact"] = b2["exact"] = False
                runs += [a, b2]
                n_cal += 1
    # a reference loss of exactly zero followed by a lower (negative) loss: the relative-improvement reward is undefined there
    with quiet():
        for plan, ls in (([3], [4, 0, -4, -8]), ([2, 2], [8, 0, 0, -2, -2]), ([1, 2], [2, 0, -1, -1]), ([4], [4, 2, 0, 0, -1])):
            r = run_controlled(plan, ls, script, [], agent_kind="scripted", seed=rng.randrange(10**6), rng=rng)
            r["exact"] = False
            runs.append(r)
    chk.evaluations = len(runs)
    chk.extra.update({"calibrate_level_pairs": n_cal, "zero_crossing_loss_sequences": 4, "graph_states": len(g.nodes), "graph_edges": len(g.edges), "edge_cover_paths": n_cover,
                      "random_walks": n_walks, "schedules_replayed_exactly": exact_n, "schedules_diverged": len(runs) - exact_n,
                      "graph_edges_visited_by_real_executions": len(covered),
                      "graph_states_visited_by_real_executions": len({s for s, _, _ in covered} | {d for _, d, _ in covered})})
    # ---- free-running executions (real Queue / Thread, per-thread logs): TLC infers the interleaving ----
    free = free_runs(120 if tier == "quick" else 1500, rng)
    fdoc = [{"cal": [_tl(e) for e in r["cal"]], "agent": [_tl(e) for e in r["agent"]], "script": r["script"], "ref": [-1]} for r in free]
    fres = tlc.validate_parallel("RLExchangeFree", "RLExchangeFree.cfg", fdoc, parts=8)
    chk.add_validation(fres)
    chk.extra["free_running_executions"] = len(free)
    chk.extra["free_running_with_seeded_yields"] = sum(1 for r in free if r["jitter"])
    for tid, why in fres["rejected"].items():
        r = free[tid - 1]
        dead = any(e["e"] == "deadlock" for e in r["cal"])
        chk.violation("free:" + ("deadlock" if dead else "no-consistent-interleaving"),
                      f"free-running execution (sessions {r['plan']}, agent {r['agent_kind']}): "
                      + ("did not finish (deadlock)" if dead else f"no interleaving of the two threads' events satisfies the specification (stuck at {why['why']})"),
                      {"plan": r["plan"], "losses": r["losses"], "script": r["script"], "agent": r["agent_kind"], "seed": r["seed"],
                       "jitter": r["jitter"], "cal": r["cal"], "agent_events": r["agent"], "tlc": why, "free": True})
    return _validate(chk, runs, "every edge of the TLC state graph of the repaired protocol (3 sessions x 0-3 batches) covered by a "
                     "path set + seeded random walks, each replayed as a thread schedule on the real RLScheduler/MABCalibrationEnv "
                     "(scripted, greedy and epsilon-greedy agents, improving/non-improving losses) under the cooperative controller; "
                     "distinct = distinct grant sequences")


def _validate(chk: Check, runs, rule: str) -> int:
    doc = {"traces": [{"ev": [_tl(e) for e in r["ev"]], "script": r["script"] if r["agent"] == "scripted" else [-1],
                       "ref": r.get("ref", [-1]) or [-2]} for r in runs]}
    res = tlc.validate("RLExchangeTrace", "RLExchangeTrace.cfg", doc, chunk=1500)
    chk.add_validation(res)
    chk.extra["distinct_nontrivial"] = len({repr(r["grants"]) for r in runs if len(r["grants"]) > 6})
    for r in runs[:2]:
        chk.sample({"plan": r["plan"], "grants": r["grants"][:40], "events": [e["e"] for e in r["ev"]][:60]})
    for tid, why in res["rejected"].items():
        r = runs[tid - 1]
        ev = r["ev"][why["at"] - 1] if why["at"] <= len(r["ev"]) else {"e": "end"}
        w = why["why"].strip('"')
        key = f"{'deadlock' if ev.get('e') == 'deadlock' else w.split(':')[0]}"
        if ev.get("e") == "agent-crash":
            crash = [e for e in r["ev"] if e["e"] == "agent-crash"][0]
            key = "agent-thread-died:" + crash.get("what", "?").split("(")[0]
            w = f"the agent thread died ({crash.get('what', '?')[:80]}) and the calibration thread then waits forever for its next choice"
        chk.violation(key, f"{w} at event {why['at']} ({ev.get('e')}) of a controlled execution, sessions {r['plan']}",
                      {"plan": r["plan"], "losses": r["losses"], "script": r["script"], "agent": r["agent"],
                       "grants": r["grants"], "events": r["ev"], "tlc": why, "via": r.get("via", False), "seed": r.get("seed", 0),
                       "ref": r.get("ref")})
    return chk.finish(rule)


def _tl(e: dict) -> dict:
    if e["e"] == "deadlock":
        return {"e": "deadlock"}
    if e["e"] in ("agent-crash", "cal-crash"):
        return {"e": e["e"]}
    return e


def replay(rep: dict) -> int:
    chk = Check("C10", "quick")
    sched = [(t, k, False) for t, k in rep["grants"]]
    with quiet():
        r = run_controlled(rep["plan"], rep["losses"], rep["script"], sched, agent_kind=rep["agent"], seed=rep.get("seed", 0),
                           via_calibrate=rep.get("via", False))
    if rep.get("ref"):
        r["ref"] = rep["ref"]
    return _validate(chk, [r], "replay of a stored schedule")
