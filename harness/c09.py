"""C09 - samplers are scheduled exactly as the chosen scheduler prescribes (Calibration.tla: RoundRobin, RLBootstrap, CtorOutcome)."""
from __future__ import annotations

import random

from . import calcfg, calcheck, tlc
from .common import Check, quiet

RELEVANT = {"C09"}
CLASSES = ["A", "B", "C", "D"]


def ctor_traces() -> list[dict]:
    """the 4-row decision table of the constructor, executed literally"""
    import numpy as np

    from black_it.calibrator import Calibrator
    from black_it.schedulers.round_robin import RoundRobinScheduler

    from . import plugins

    evs = []
    # (a sampler list that is given is given whatever it holds: an empty list / tuple next to a scheduler is still "both")
    for has_s, has_sch, empty in [(False, False, None), (False, True, None), (True, False, None), (True, True, None),
                                  (True, True, []), (True, True, ())]:
        if True:
            smp = [plugins.make_sampler({"cls": "A", "bs": 1}, 1)] if empty is None else empty
            kw = {}
            if has_s:
                kw["samplers"] = smp
            if has_sch:
                kw["scheduler"] = RoundRobinScheduler([plugins.make_sampler({"cls": "B", "bs": 1}, 2)])
            try:
                with quiet():
                    Calibrator(loss_function=plugins.TableLoss({}, 6), real_data=np.zeros((8, 1)), model=plugins.scripted_model,
                               parameters_bounds=plugins.SPACE_BOUNDS, parameters_precision=plugins.SPACE_PREC, ensemble_size=1,
                               verbose=False, n_jobs=1, **kw)
                out = "ok"
            except ValueError:
                out = "ValueError"
            except Exception as e:  # noqa: BLE001
                out = type(e).__name__
            evs.append({"e": "ctor", "samplers": has_s, "scheduler": has_sch, "outcome": out})
    cfg = {"lineup": calcfg.LU["A"], "alts": [], "kind": "rr", "E": 1, "N": 8, "convon": False, "verbose": False, "saving": False,
           "modelevents": True}
    return [{"cfg": cfg, "ev": [e], "script": {"cfg": cfg, "ops": [["ctor", e["samplers"], e["scheduler"]]], "tlc_ops": ["ctor"]}} for e in evs]


def shared_object_traces(rng: random.Random, n_cases: int) -> list[list[dict]]:
    """line-ups that list the same sampler OBJECT in several slots, served by the real round-robin scheduler (LineUpTrace.tla)"""
    import numpy as np

    from black_it.samplers.halton import HaltonSampler
    from black_it.samplers.random_uniform import RandomUniformSampler
    from black_it.schedulers.round_robin import RoundRobinScheduler

    out = []
    for _ in range(n_cases):
        pool = [HaltonSampler(batch_size=1), RandomUniformSampler(batch_size=2), RandomUniformSampler(batch_size=3)]
        slots = [rng.randrange(3) for _ in range(rng.randint(2, 5))]
        if len(set(slots)) == len(slots):
            slots[-1] = slots[0]                       # at least one object twice
        lineup = [pool[k] for k in slots]
        with quiet():
            sched = RoundRobinScheduler(lineup)
            picks = []
            with sched.session():
                for b in range(2 * len(slots) + 1):
                    smp = sched.get_next_sampler()
                    picks.append([k for k in range(3) if pool[k] is smp][0] if any(pool[k] is smp for k in range(3)) else -1)
                    sched.update(b, np.zeros((1, 1)), np.zeros(1), np.zeros((1, 1, 1, 1)))
        out.append([{"objs": slots, "picks": picks, "kept": len(sched.samplers)}])
    return out


def random_lineup(rng: random.Random, n: int) -> list[dict]:
    return [{"cls": rng.choice(CLASSES), "bs": rng.randint(1, 3)} for _ in range(n)]


def build(tier: str, rng: random.Random):
    scripts = []
    n_avail = 0
    # round robin: TLC behaviours (calls / checkpoints / restores) of the three-sampler configuration ...
    base = calcfg.config("Gen_C09")
    ops = calcheck.maximal(calcheck.tlc_scripts("Gen_C09"))
    n_avail += len(ops)
    for o in calcheck.sample_scripts(ops, 90 if tier == "quick" else 900, rng):
        scripts.append(calcheck.to_script(o, base, seed=rng.randrange(1, 10**6)))
    # ... and the same call/restore shapes on line-ups of 1-6 samplers with repeated classes
    for o in calcheck.sample_scripts(ops, 60 if tier == "quick" else 600, rng):
        lu = random_lineup(rng, rng.randint(1, 6))
        scripts.append(calcheck.to_script(o, {**base, "lineup": lu, "E": 1}, seed=rng.randrange(1, 10**6)))
    # the position of the round-robin scheduler must follow the batches that were *completed*: a batch aborted by a fault is
    # produced again by the same sampler (TLC behaviours with a fault at every invocation index, followed by further calls)
    bf = calcfg.config("Gen_C11")
    of = [o for o in calcheck.maximal(calcheck.tlc_scripts("Gen_C11")) if any(x[0] == "fault" for x in o)]
    n_avail += len(of)
    for o in calcheck.sample_scripts(of, 60 if tier == "quick" else 600, rng):
        lu = calcfg.LU["ABA"] if rng.random() < 0.5 else bf["lineup"]
        scripts.append(calcheck.to_script(o, {**bf, "lineup": lu}, seed=rng.randrange(1, 10**6), saving=rng.random() < 0.5))
    # ... and a batch that ends a call early (convergence stop) counts like any other for the calls that follow
    bc = calcfg.config("Gen_C14")
    oc = calcheck.maximal(calcheck.tlc_scripts("Gen_C14"))
    n_avail += len(oc)
    for o in calcheck.sample_scripts(oc, 60 if tier == "quick" else 269, rng):
        scripts.append(calcheck.to_script(o, {**bc, "lineup": calcfg.LU["ABA"]}, seed=rng.randrange(1, 10**6), saving=rng.random() < 0.5,
                                          verbose=rng.random() < 0.5, prec=rng.randint(0, 6)))
    # RL scheduler: every agent choice sequence
    for gen, k in (("Gen_C09_rl", 70 if tier == "quick" else 115), ("Gen_C09_rl2", 50 if tier == "quick" else 400),
                   ("Gen_C09_rl3", 40 if tier == "quick" else 400)):
        b = calcfg.config(gen)
        o2 = calcheck.maximal(calcheck.tlc_scripts(gen))
        n_avail += len(o2)
        for o in calcheck.sample_scripts(o2, k, rng):
            sc = calcheck.to_script(o, b, seed=rng.randrange(1, 10**6))
            if rng.random() < 0.5:
                # losses that reach exactly zero (and stay non-negative) while the calibration goes on
                sc["loss"] = {"seq": [rng.choice([0, 0, 3, 6]) for _ in range(24)], "default": 6}
            scripts.append(sc)
    # the real epsilon-greedy agent (its choices are whatever its policy returns: the calls / batch counts of the TLC behaviours are kept)
    b = calcfg.config("Gen_C09_rl")
    o3 = calcheck.maximal(calcheck.tlc_scripts("Gen_C09_rl"))
    for o in calcheck.sample_scripts(o3, 30 if tier == "quick" else 115, rng):
        sc = calcheck.to_script([x for x in o if x[0] != "choose"], b, seed=rng.randrange(1, 10**6))
        sc["cfg"]["eps"] = rng.choice([0.0, 0.3, 1.0])
        if rng.random() < 0.4:
            sc["loss"] = {"seq": [rng.choice([0, 0, 3, 6]) for _ in range(24)], "default": 6}
        scripts.append(sc)
    return scripts, n_avail


def run(tier: str) -> int:
    chk = Check("C09", tier)
    rng = random.Random(900 + chk.seed)
    calcheck.design(chk, ["MC_C09", "MC_C09_rl", "MC_C09_rl2", "MC_C09_rl3"])
    scripts, n_avail = build(tier, rng)
    chk.extra["tlc_behaviours_available"] = n_avail
    traces = calcheck.execute(scripts) + ctor_traces()
    chk.evaluations = len(traces)
    for t in traces[:2] + traces[-5:-3]:
        chk.sample({"kind": t["cfg"]["kind"], "lineup": t["cfg"]["lineup"], "ops": t["script"]["tlc_ops"], "events": [e["e"] for e in t["ev"]][:30]})
    calcheck.validate(chk, traces, relevant=RELEVANT | {"C10"})
    so = shared_object_traces(rng, 12 if tier == "quick" else 120)
    rso = tlc.validate("LineUpTrace", "LineUpTrace.cfg", {"traces": so})
    chk.add_validation(rso)
    chk.extra["shared_object_lineups"] = len(so)
    for tid, why in rso["rejected"].items():
        chk.violation("rr:shared-object-lineup", f"{why['why']}: {so[tid - 1][0]}", {"script": {"ops": [["shared"]], "case": so[tid - 1][0]}, "tlc": why})
    chk.extra["distinct_nontrivial"] = len({repr((t["cfg"]["lineup"], t["script"]["tlc_ops"])) for t in traces})
    return chk.finish("TLC behaviours (calls, checkpoints, restores; for RL every agent choice sequence) replayed on the real Calibrator "
                      "with recording samplers on line-ups of 1-6 samplers incl. repeated classes; the sampler object asked for every "
                      "batch, its class, batch size and the stored labels validated by TLC (RoundRobin, BatchSizes, RLBootstrap, agent "
                      "choice = executed sampler); the constructor's 4-row table executed literally")


def replay(rep: dict) -> int:
    chk = Check("C09", "quick")
    if rep["script"]["ops"] and rep["script"]["ops"][0][0] == "shared":
        so = shared_object_traces(random.Random(1), 24)
        rso = tlc.validate("LineUpTrace", "LineUpTrace.cfg", {"traces": so})
        chk.add_validation(rso)
        for tid, why in rso["rejected"].items():
            chk.violation("rr:shared-object-lineup", f"{why['why']}: {so[tid - 1][0]}", {"script": rep["script"], "tlc": why})
        return chk.finish("replay: line-ups with a shared sampler object")
    if rep["script"]["ops"] and rep["script"]["ops"][0][0] == "ctor":
        traces = ctor_traces()
    else:
        traces = calcheck.execute([rep["script"]], procs=1)
    calcheck.validate(chk, traces, relevant=None)
    return chk.finish("replay of a stored script")
