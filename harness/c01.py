"""C01 - a calibration run is a pure function of its configuration and seed.

design    : Calibration.tla, MC_C01: nondeterministic in njobs / verbose / saving / worker completion order, a single observable
            outcome (ObservableIsRef, NoCtorRoot); design mutant (seed drawn inside the worker) refuted.
conformance: (a) scripted plug-ins: seed positions of every model run, sampler seed roots and cursors validated event by event
            (CalibrationTrace.tla);  (b) line-ups of the nine built-in samplers, both schedulers, all built-in losses: variants in the
            irrelevant axes must have identical exact projections (Observable.tla).
"""
from __future__ import annotations

import random

from . import calcfg, calcheck, tlc, twins
from .common import REPO, Check

VARIANTS = [{"njobs": 1}, {"njobs": 2}, {"njobs": 4}, {"njobs": 1, "verbose": True}, {"njobs": 1, "saving": True},
            {"njobs": 1, "ctor": True}, {"njobs": 2, "ctor": True, "verbose": True, "saving": True}]


def scripted(tier: str, rng: random.Random) -> list[dict]:
    """irrelevant-axis variants of scripted runs: njobs 1/2, verbose, saving, with seed positions logged"""
    scripts = []
    lineups = [calcfg.LU["ABA"], calcfg.LU["AB"], calcfg.LU["ABC"]]
    for _ in range(24 if tier == "quick" else 160):
        lu = rng.choice(lineups)
        base = {**calcfg.config("MC_C01"), "lineup": lu, "E": rng.randint(1, 3)}
        nb = rng.randint(1, 5)
        seed = rng.randrange(1, 10**6)
        for njobs, verbose, saving in ((1, False, False), (2, False, False), (1, True, True)):
            s = calcheck.to_script([["call", nb]], base, seed=seed, verbose=verbose, saving=saving, njobs=njobs)
            scripts.append(s)
    return scripts


def run(tier: str) -> int:
    chk = Check("C01", tier)
    rng = random.Random(100 + chk.seed)
    calcheck.design(chk, ["MC_C01", "MC_C01_burn", "MC_C01_mut"] + (["MC_C01_thorough"] if tier == "thorough" else []))
    # (a) scripted plug-ins
    traces = calcheck.execute(scripted(tier, rng), procs=6)
    calcheck.validate(chk, traces, relevant={"C01", "C02"})
    # (b) built-in samplers: twin projections
    n_cfg = 8 if tier == "quick" else 70
    jobs = []
    for i in range(n_cfg):
        cfg = twins.random_config(rng, rl=(i % 4 == 3), heavy=(i % 2 == 0))
        vs = VARIANTS if tier == "thorough" else [VARIANTS[0], VARIANTS[4 if i % 2 else 1]] + rng.sample(VARIANTS[1:], 2)
        if cfg["kind"] == "rl" and i % 8 == 7:
            # no Halton sampler (and no best-batch, which needs one of its own): the scheduler adds its bootstrap sampler itself
            cfg["lineup"] = [[n if n not in ("HaltonSampler", "BestBatchSampler") else "RandomUniformSampler", b] for n, b in cfg["lineup"]]
        if cfg["kind"] == "rl":
            if VARIANTS[5] not in vs:
                vs = vs + [VARIANTS[5]]      # the agent built with another seed
            cfg["eps"] = 1.0 if i % 8 == 3 else 0.3      # an agent that draws from its generator at every decision
        jobs.append((cfg, vs, str(REPO)))
    # the number of jobs against every kind of model (plain, single-precision output, overwriting its argument) and every loss
    kinds = [(f32, scr, loss) for f32 in (False, True) for scr in (False, True) for loss in twins.LOSSES]
    for f32, scr, loss in (kinds if tier == "thorough" else rng.sample(kinds, 8)):
        cfg = twins.random_config(rng, rl=False, heavy=False)
        cfg.update({"f32": f32, "scribble": scr, "loss": loss, "batches": min(cfg["batches"], 4)})
        jobs.append((cfg, [VARIANTS[0], VARIANTS[1], VARIANTS[2]], str(REPO)))
    results = twins.pool_map(twins._c01_worker, jobs, procs=8)  # noqa: SLF001
    # process history is not part of the configuration either: a fresh interpreter vs one that ran other calibrations before
    hist_jobs, hist_cfgs = [], []
    for i in range(3 if tier == "quick" else 16):
        cfg = twins.random_config(rng, rl=False, heavy=False)
        d = rng.choice([2, 3, 4])
        cfg["bounds"], cfg["prec"] = [[0.0] * d, [1.0] * d], [0.01] * d
        cfg["lineup"] = [["HaltonSampler", 2], [rng.choice(["RSequenceSampler", "RandomUniformSampler", "BestBatchSampler", "ParticleSwarmSampler"]), 2]]
        cfg["batches"] = 3
        warm = []
        for dd in ([d - 1, d + 1] if i % 2 else [d - 1]):
            w = dict(cfg)
            w["bounds"], w["prec"], w["seed"] = [[0.0] * dd, [1.0] * dd], [0.01] * dd, rng.randrange(1, 2**31)
            warm.append(w)
        hist_cfgs.append(cfg)
        hist_jobs += [(cfg, [], "process=fresh", str(REPO)), (cfg, warm, "process=after-other-calibrations", str(REPO))]
    hev = twins.fresh_map(twins._c01_history_worker, hist_jobs, procs=6)  # noqa: SLF001
    for k, cfg in enumerate(hist_cfgs):
        results.append({"cfg": cfg, "ev": hev[2 * k] + hev[2 * k + 1], "variants": [{"process": "fresh"}, {"process": "after-other-calibrations"}]})
    # one trace per (reference execution, variant) pair: a variant that fails for a known reason must not hide the others
    pairs = []
    for r in results:
        segs, cur = [], []
        for e in r["ev"]:
            if e["e"] == "variant" and cur:
                segs.append(cur)
                cur = []
            cur.append(e)
        segs.append(cur)
        for k in range(1, len(segs)):
            pairs.append({"cfg": r["cfg"], "ev": segs[0] + segs[k], "variants": [r["variants"][0], r["variants"][k]] if len(r["variants"]) > k else r["variants"]})
        if len(segs) == 1:
            pairs.append({"cfg": r["cfg"], "ev": segs[0], "variants": r["variants"][:1]})
    n_exec = sum(len(r["variants"]) for r in results)
    n_cfg = len(results)
    results = pairs
    doc = {"traces": [{"ev": r["ev"]} for r in results]}
    res = tlc.validate("Observable", "Observable.cfg", doc)
    chk.add_validation(res)
    chk.evaluations = len(traces) + n_exec
    chk.extra["builtin_configurations"] = n_cfg
    chk.extra["builtin_executions"] = n_exec
    chk.extra["distinct_nontrivial"] = len({repr(r["cfg"]) for r in results}) + len({repr(t["script"]["cfg"]) for t in traces})
    for r in results[:3]:
        chk.sample({"lineup": r["cfg"]["lineup"], "kind": r["cfg"]["kind"], "loss": r["cfg"]["loss"], "E": r["cfg"]["E"],
                    "batches": r["cfg"]["batches"], "variants": r["variants"], "events": len(r["ev"])})
    for tid, why in res["rejected"].items():
        r = results[tid - 1]
        ev = r["ev"][why["at"] - 1]
        variant = [e for e in r["ev"][:why["at"]] if e["e"] == "variant"][-1]["axes"]
        kind = "crash" if ev["e"] == "crash" else "differs"
        axes = "+".join(sorted(a.split("=")[0] for a in variant.split(",") if not a.endswith("=1") and not a.endswith("=False") and not a.endswith("=fresh")))
        if kind == "crash":
            key = f"{r['cfg']['kind']}:crash:{'saving' if 'saving' in axes else (axes or 'njobs')}:{ev.get('what', '').split(':')[0]}"
        else:
            key = f"{r['cfg']['kind']}:{kind}:{axes or 'njobs'}"
        chk.violation(key, f"variant [{variant}] of the same configuration and seed: {why['why']} {ev.get('what', '')}",
                      {"cfg": r["cfg"], "variants": r["variants"], "event": ev, "tlc": why})
    return chk.finish("scripted runs (seed position of every model run / sampler seed root validated by TLC) under njobs 1/2, verbose, "
                      "saving; random configurations of built-in samplers (nine classes, repeats, batch sizes 1-4), both schedulers, all "
                      "five built-in losses, 1-4 parameters, E 1-3, each executed under variants of n_jobs {1,2,4}, verbose, saving folder, "
                      "constructor seeds, with SHA-256 projections of every batch and of the returned arrays compared by TLC")


def replay(rep: dict) -> int:
    chk = Check("C01", "quick")
    r = twins._c01_worker((rep["cfg"], rep["variants"], str(REPO)))  # noqa: SLF001
    res = tlc.validate("Observable", "Observable.cfg", {"traces": [{"ev": r["ev"]}]})
    chk.add_validation(res)
    for tid, why in res["rejected"].items():
        chk.violation("replay", why["why"], {"cfg": rep["cfg"], "variants": rep["variants"], "tlc": why})
    return chk.finish("replay of a stored configuration")
