"""C11 - a failing batch leaves the calibrator consistent and reusable (Calibration.tla: Fault/Unwind)."""
from __future__ import annotations

import random

from . import calcfg, calcheck
from .common import Check

RELEVANT = {"C11"}


def build(tier: str, rng: random.Random):
    scripts = []
    n = 0
    for gen, per in (("Gen_C11", 150 if tier == "quick" else 1400), ("Gen_C11_rl", 100 if tier == "quick" else 900)):
        base = calcfg.config(gen)
        ops = [o for o in calcheck.maximal(calcheck.tlc_scripts(gen)) if any(x[0] == "fault" for x in o)]
        n += len(ops)
        for o in calcheck.sample_scripts(ops, per, rng):
            sc = calcheck.to_script(o, base, seed=rng.randrange(1, 10**6),
                                    saving=(rng.random() < 0.5) if base["kind"] == "rr" else False)
            sc["fault_base"] = rng.random() < 0.3       # the plug-in is interrupted (a BaseException that is not an Exception)
            sc["fault_type"] = rng.choice(["runtime", "value", "key"])      # ... or fails with an exception of another common type
            scripts.append(sc)
    return scripts, n


def run(tier: str) -> int:
    chk = Check("C11", tier)
    rng = random.Random(1100 + chk.seed)
    calcheck.design(chk, ["MC_C11", "MC_C11_rl", "MC_C11_mut", "MC_C11_mut2"])
    scripts, nops = build(tier, rng)
    chk.extra["tlc_behaviours_available"] = nops
    traces = calcheck.execute(scripts)
    chk.evaluations = len(traces)
    for t in traces[:2] + traces[-2:]:
        chk.sample({"kind": t["cfg"]["kind"], "ops": t["script"]["tlc_ops"], "events": [e["e"] for e in t["ev"]]})
    calcheck.validate(chk, traces, relevant=RELEVANT | {"C02", "C10", "C09"})
    chk.extra["distinct_nontrivial"] = len({repr((t["cfg"]["kind"], t["script"]["tlc_ops"])) for t in traces})
    return chk.finish("behaviours of Gen_C11 / Gen_C11_rl with a fault (exception out of the sampler, the model or the loss at every "
                      "invocation index of runs of <= 4 batches, followed by further calls) replayed on the real Calibrator with "
                      "round-robin and RL schedulers; exception type, history, thread census and the next calibrate() validated by TLC")


def replay(rep: dict) -> int:
    chk = Check("C11", "quick")
    traces = calcheck.execute([rep["script"]], procs=1)
    calcheck.validate(chk, traces, relevant=None)
    return chk.finish("replay of a stored script")
