"""Harness for C04 / C06 on the real save/load functions of both persistence back-ends.

A calibrator state is identified, as in Checkpoint.tla, by (run, rows): states of one run share their prefix of
history rows.  `state_args` builds the concrete argument tuple of save_calibrator_state for such a state (float
values chosen to be hard to round-trip through text), `classify` maps what load_calibrator_state returns back to
the abstract components (for every component: which known state it equals).
"""
from __future__ import annotations

import hashlib
import json
import pickle
import shutil
import struct
from pathlib import Path

import numpy as np

MAXR = 6
FILES = ["calibration_params.json", "scheduler_pickled.pickle", "loss_function_pickled.pickle", "calibration_results.csv",
         "series_samp.h5"]
ABSTRACT = {"calibration_params.json": "params", "scheduler_pickled.pickle": "sched", "loss_function_pickled.pickle": "loss",
            "calibration_results.csv": "csv", "series_samp.h5": "h5"}
HARD = [0.1, 1 / 3, 2 / 3, 0.30000000000000004, 1e-300, 1e300, 5e-324, 2.2250738585072014e-308, 1.7976931348623157e308,
        9007199254740993.0, 0.1 + 0.2, 123456.78901234567, 4.35, 8.41e21, 2.0**-1074 * 3, 1.0000000000000002, -0.0,
        3.4028234663852886e38, 1e39, 0.6000000000000001, 6e-4, 5.0e-324, 7.038531e-26, 1.2345678901234567e-5]


def _rng(run: str):
    return np.random.default_rng(int(hashlib.sha256(run.encode()).hexdigest()[:8], 16))


_CACHE: dict = {}


RUN_DIMS = {"A": 12, "A2": 12, "B": 2}      # number of parameters per run (more than ten: column names no longer sort numerically)


def run_data(run: str, shape=(2, 5, 1), dims: int | None = None) -> dict:
    """the full-length arrays of a run; state (run, rows) is their prefix"""
    dims = RUN_DIMS.get(run, 2) if dims is None else dims
    key = (run, shape, dims)
    if key in _CACHE:
        return _CACHE[key]
    if run == "A2":
        # run A2 shares every history row with run A except the first one (two runs may share rows without one being a prefix of
        # the other: e.g. a deterministic model and a sampler that proposes the same points again)
        a = run_data("A", shape, dims)
        g2 = _rng("A2")
        d = {k: (v.copy() if isinstance(v, np.ndarray) else v) for k, v in a.items()}
        d["params"][0] = g2.random(dims)
        d["losses"][0] = 0.123456789
        d["series"][0] = g2.standard_normal(shape)
        d["seed"] = int(g2.integers(1, 2**31))
        _CACHE[key] = d
        return d
    g = _rng(run)
    params = g.random((MAXR, dims))
    losses = g.random(MAXR)
    hard = list(HARD)
    g.shuffle(hard)
    for i in range(MAXR):
        params[i, i % dims] = hard[(2 * i) % len(hard)] if abs(hard[(2 * i) % len(hard)]) < 1e300 else params[i, i % dims]
        losses[i] = hard[(2 * i + 1) % len(hard)]
    if run == "B":
        losses[1] = float("inf")
    series = g.standard_normal((MAXR, *shape))
    series[0, 0, 0, 0] = 5e-324
    d = {"params": params, "losses": losses, "series": series, "batch": np.arange(MAXR) // 2, "method": np.arange(MAXR) % 2,
         "seed": int(g.integers(1, 2**31)), "real": g.standard_normal((shape[1], shape[2])), "shape": shape, "dims": dims}
    _CACHE[key] = d
    return d


def scheduler_for(run: str, rows: int):
    from black_it.samplers.halton import HaltonSampler
    from black_it.samplers.r_sequence import RSequenceSampler
    from black_it.schedulers.round_robin import RoundRobinScheduler

    d = run_data(run)
    s = RoundRobinScheduler([HaltonSampler(batch_size=2, random_state=d["seed"] % 1000),
                             RSequenceSampler(batch_size=1, random_state=d["seed"] % 777)], random_state=d["seed"] % 555)
    s._batch_id = rows  # noqa: SLF001
    s.samplers[0]._sequence_index += 2 * rows  # noqa: SLF001
    s.samplers[1]._sequence_index += rows  # noqa: SLF001
    return s


def loss_for(run: str, rows: int = 0):
    """(the weights depend on the state so that every component identifies the state it was written from)"""
    from black_it.loss_functions.minkowski import MinkowskiLoss

    return MinkowskiLoss(p={"A": 2, "B": 3}.get(run, 4), coordinate_weights=np.array([{"A": 0.25, "B": 0.75}.get(run, 0.5) + rows / 1024]))


def gen_state(run: str, rows: int) -> dict:
    d = run_data(run)
    g = np.random.default_rng(d["seed"])
    for _ in range(rows + 2):
        g.integers(2**32 - 1)
    return g.bit_generator.state


def state_args(run: str, rows: int, backend: str, shape=(2, 5, 1)) -> tuple:
    d = run_data(run, shape)
    bounds = np.array([[0.0] * d["dims"], [1.0 + (run == "B")] * d["dims"]])
    prec = np.array([0.01] * d["dims"])
    common = [bounds, prec, d["real"], shape[0], shape[1], shape[2], None if run == "A" else 3, run == "A", "folder_" + run, d["seed"],
              gen_state(run, rows), "model_" + run, scheduler_for(run, rows), loss_for(run, rows), rows // 2]
    arrays = [d["params"][:rows].copy(), d["losses"][:rows].copy(), d["series"][:rows].copy(), d["batch"][:rows].copy(),
              d["method"][:rows].copy()]
    if backend == "json":
        return (*common, rows, 1, *arrays)        # + n_sampled_params, n_jobs
    return (*common, *arrays)


# ------------------------------------------------------------------------------------------------
# projection
# ------------------------------------------------------------------------------------------------
def _b(x) -> bytes:
    if isinstance(x, np.ndarray):
        a = np.ascontiguousarray(x)
        return f"{a.dtype.kind}{a.shape}".encode() + (a.astype(np.float64).tobytes() if a.dtype.kind in "fiu" else repr(a.tolist()).encode())
    if isinstance(x, float):
        return struct.pack("<d", x)
    if isinstance(x, (list, tuple)):
        return b"[" + b",".join(_b(y) for y in x) + b"]"
    if isinstance(x, dict):
        return b"{" + b",".join(_b(k) + b":" + _b(v) for k, v in sorted(x.items(), key=lambda kv: str(kv[0]))) + b"}"
    if isinstance(x, (np.integer,)):
        return str(int(x)).encode()
    if isinstance(x, (np.floating,)):
        return struct.pack("<d", float(x))
    return repr(x).encode()


def deep(obj, depth: int = 0) -> bytes:
    """canonical bytes of an object graph (samplers, schedulers, losses): class names, attribute dicts, array bytes,
    generator states; fitted third-party models are projected by type only"""
    if depth > 8:
        return b"..."
    if isinstance(obj, np.random.Generator):
        return b"G" + json.dumps(obj.bit_generator.state, sort_keys=True, default=int).encode()
    if isinstance(obj, (np.ndarray, float, int, str, bool, type(None), np.integer, np.floating)):
        return _b(obj)
    if isinstance(obj, (list, tuple)):
        return b"[" + b",".join(deep(x, depth + 1) for x in obj) + b"]"
    if isinstance(obj, dict):
        return b"{" + b",".join(_b(str(k)) + b":" + deep(v, depth + 1) for k, v in sorted(obj.items(), key=lambda kv: str(kv[0]))) + b"}"
    mod = type(obj).__module__ or ""
    if not mod.startswith(("black_it", "harness")):
        return b"<" + type(obj).__name__.encode() + b">"
    if callable(obj) and not hasattr(obj, "__dict__"):
        return b"fn:" + getattr(obj, "__name__", "?").encode()
    items = sorted(getattr(obj, "__dict__", {}).items())
    return type(obj).__name__.encode() + b"(" + b",".join(k.encode() + b"=" + deep(v, depth + 1) for k, v in items
                                                          if k not in ("_agent_thread",)) + b")"


def h(b: bytes) -> str:
    return hashlib.sha256(b).hexdigest()[:16]


def _norm(x):
    """scalars of the configuration part are compared by value (SQLite stores True as 1 and 3 as 3.0)"""
    if isinstance(x, (bool, np.bool_)):
        return float(int(x))
    if isinstance(x, (int, float, np.integer, np.floating)):
        return float(x)
    return x


def components(t: tuple, backend: str) -> dict:
    """component hashes of an argument / loaded tuple (json: 22 or 23 entries, sqlite: 20)"""
    if backend == "json":
        head, sched, loss, cbi, nsp, njobs = t[:12], t[12], t[13], t[14], t[15], t[16]
        params, losses, series, batch, method = t[17:22]
        phash = h(_b([np.asarray(head[0], dtype=float), np.asarray(head[1], dtype=float), np.asarray(head[2], dtype=float),
                      *[_norm(x) for x in head[3:12]], int(cbi), int(nsp), int(njobs)]))
    else:
        head, sched, loss, cbi = t[:12], t[12], t[13], t[14]
        params, losses, series, batch, method = t[15:20]
        phash = h(_b([np.asarray(head[0], dtype=float), np.asarray(head[1], dtype=float), np.asarray(head[2], dtype=float),
                      *[_norm(x) for x in head[3:12]], int(cbi)]))
    return {"params": phash, "sched": h(deep(sched)), "loss": h(deep(loss)),
            "csv": h(_b([np.asarray(params, dtype=float), np.asarray(losses, dtype=float), np.asarray(batch).astype(np.int64),
                         np.asarray(method).astype(np.int64)])),
            "csv_rows": [h(_b([np.asarray(params, dtype=float)[i], float(np.asarray(losses, dtype=float)[i]), int(batch[i]), int(method[i])]))
                         for i in range(min(len(params), len(losses), len(batch), len(method)))],
            "csv_lens": [len(params), len(losses), len(batch), len(method)],
            "h5_rows": [h(_b(np.asarray(series[i], dtype=float))) for i in range(len(series))],
            "dtypes": [str(np.asarray(params).dtype), str(np.asarray(losses).dtype)]}


class Known:
    """hash tables of every state (run, rows) that can be involved, per back-end"""

    def __init__(self, runs, backend: str, shape=(2, 5, 1)):
        self.backend = backend
        self.shape = shape
        self.tab = {"params": {}, "sched": {}, "loss": {}, "csv": {}}
        self.rowtab = {}
        self.h5tab = {}
        for r in runs:
            for n in range(MAXR + 1):
                c = components(state_args(r, n, backend, shape), backend)
                for k in self.tab:
                    self.tab[k].setdefault(c[k], (r, n))
            full = components(state_args(r, MAXR, backend, shape), backend)
            for i, x in enumerate(full["h5_rows"]):
                self.h5tab.setdefault(x, [r, i + 1])          # (a row shared by two runs is attributed to the first: RowId of Checkpoint.tla)
            for i, x in enumerate(full["csv_rows"]):
                self.rowtab[x] = (r, i)
        self.zero = h(_b(np.zeros(shape)))

    def classify(self, loaded: tuple, candidates=()) -> dict:
        """for every component the state it equals: the candidates (most recent first) are tried first, because
        components that do not depend on the number of rows (e.g. the loss object) equal several states"""
        c = components(loaded, self.backend)
        cand = [(r, n, components(state_args(r, n, self.backend, self.shape), self.backend)) for r, n in candidates]
        out = {}
        for k in ("params", "sched", "loss"):
            hit = [(r, n) for r, n, cc in cand if cc[k] == c[k]]
            r = hit[0] if hit else self.tab[k].get(c[k])
            out[k] = [r[0], r[1]] if r else ["?", -1]
        hit = [(r, n) for r, n, cc in cand if cc["csv"] == c["csv"]]
        r = hit[0] if hit else self.tab["csv"].get(c["csv"])
        clean = len(set(c["csv_lens"])) == 1 and c["dtypes"] == ["float64", "float64"]
        if r and clean:
            out["csv"] = [r[0], r[1], False]
        elif not clean and c["dtypes"] != ["float64", "float64"]:
            out["csv"] = ["dtype:" + "/".join(c["dtypes"]), c["csv_lens"][0], True]
        else:
            # a truncated record file: how many leading records are intact records of one run
            k, run = 0, "?"
            for x in c["csv_rows"]:
                h2 = self.rowtab.get(x)
                if h2 and h2[1] == k and run in ("?", h2[0]):
                    run, k = h2[0], k + 1
                else:
                    break
            out["csv"] = [run, k, k < len(c["csv_rows"]) or len(set(c["csv_lens"])) != 1]
        out["h5"] = [self.h5tab.get(x, ["zero", 0] if x == self.zero else ["?", 0]) for x in c["h5_rows"]]
        return out


def row_id(run: str, i: int) -> list:
    return ["A", i] if run == "A2" and i > 1 else [run, i]


def whole(run: str, rows: int) -> dict:
    return {"params": [run, rows], "sched": [run, rows], "loss": [run, rows], "csv": [run, rows, False],
            "h5": [row_id(run, i) for i in range(1, rows + 1)]}


# ------------------------------------------------------------------------------------------------
# real operations
# ------------------------------------------------------------------------------------------------
def save(folder: str, run: str, rows: int, backend: str, shape=(2, 5, 1)) -> None:
    if backend == "json":
        from black_it.utils.json_pandas_checkpointing import save_calibrator_state
    else:
        from black_it.utils.sqlite3_checkpointing import save_calibrator_state
    save_calibrator_state(folder, *state_args(run, rows, backend, shape))


def load(folder: str, backend: str, known: Known, candidates=()) -> dict:
    """load event: err / classified components"""
    try:
        if backend == "json":
            from black_it.utils.json_pandas_checkpointing import load_calibrator_state

            t = load_calibrator_state(folder, 1)
        else:
            from black_it.utils.sqlite3_checkpointing import load_calibrator_state

            t = load_calibrator_state(folder)
        comp = known.classify(t, candidates)
        return {"e": "load", "b": backend, "err": False, "comp": comp}
    except BaseException as e:  # noqa: BLE001  (pickle / h5py / pandas errors of any kind are "an error")
        return {"e": "load", "b": backend, "err": True, "comp": whole("?", 0), "what": f"{type(e).__name__}: {e}"[:160]}


def folder_bytes(folder: str) -> dict[str, bytes]:
    return {f: (Path(folder) / f).read_bytes() for f in FILES if (Path(folder) / f).exists()}


def write_folder(folder: str, files: dict[str, bytes]) -> None:
    p = Path(folder)
    if p.exists():
        shutil.rmtree(p)
    p.mkdir(parents=True)
    for f, b in files.items():
        (p / f).write_bytes(b)


def observed_write_order(folder_new: str) -> list[str]:
    """order in which the real save wrote its files (modification times; ties keep the documented order)"""
    p = Path(folder_new)
    ms = [(p.joinpath(f).stat().st_mtime_ns, FILES.index(f), f) for f in FILES if p.joinpath(f).exists()]
    return [f for _, _, f in sorted(ms)]


def pickle_roundtrip_ok(obj) -> bool:
    try:
        pickle.loads(pickle.dumps(obj))
        return True
    except Exception:  # noqa: BLE001
        return False
