"""Thin driver around TLC (tla2tools 1.8) used by every check.

* `model_check`  : exhaustive BFS of a design spec with a .cfg, parses states / transitions /
                   violated invariant, coverage of actions (vacuity guard).
* `validate`     : batched trace validation.  A JSON document {"traces": [[ev, ...], ...], ...} is
                   written to a scratch file whose name is handed to TLC in the environment variable
                   TRACE_FILE; the trace spec prints one line  <<"OK", tid>>  per accepted trace and
                   <<"STUCK", tid, l, why>> for the first event that no spec action explains.
* `evaluate`     : run a spec whose ASSUME/PrintT evaluates constant expressions (used to let TLC
                   produce the script sets that are replayed into the code).

All scratch (metadir, trace files, dumps) lives in a fresh temporary directory that is removed
afterwards; nothing registered in MANIFEST.json depends on a file under /tmp.
"""
from __future__ import annotations

import json
import os
import re
import shutil
import subprocess
import tempfile
import time
from pathlib import Path

SPECS = Path(__file__).resolve().parent.parent / "specs"
JAVA_CP = "/opt/veriftools/tla/tla2tools.jar:/opt/veriftools/tla/CommunityModules-deps.jar"


class MachineryError(RuntimeError):
    """TLC crashed / spec did not parse / vacuity: exit status 2 of the check."""


def _scratch() -> Path:
    return Path(tempfile.mkdtemp(prefix="verif-tlc-"))


def _run(args, env_extra, timeout, cwd, heap="4g"):
    env = dict(os.environ)
    env.update(env_extra or {})
    cmd = ["java", "-XX:+UseParallelGC", "-XX:ParallelGCThreads=4", "-XX:TieredStopAtLevel=1" if False else "-XX:+TieredCompilation", f"-Xmx{heap}", "-Xss64m", "-cp", JAVA_CP, "tlc2.TLC", *args]
    t0 = time.time()
    try:
        p = subprocess.run(cmd, cwd=cwd, env=env, capture_output=True, text=True, timeout=timeout)
    except subprocess.TimeoutExpired as e:  # pragma: no cover
        raise MachineryError(f"TLC timed out after {timeout}s: {' '.join(args)}") from e
    return p.returncode, p.stdout + p.stderr, time.time() - t0


_RE_STATES = re.compile(r"(\d+) states generated, (\d+) distinct states found")
_RE_INV = re.compile(r"Invariant (\S+) is violated")
_RE_PROP = re.compile(r"(?:Temporal properties were violated|Action property (\S+) is violated)")
_RE_DEPTH = re.compile(r"The depth of the complete state graph search is (\d+)")


def model_check(module: str, cfg: str, *, workers: int = 8, timeout: int = 900, env=None,
                deadlock: bool | None = None, extra=(), coverage: bool = False, heap="6g",
                keep_output: bool = False) -> dict:
    """Run TLC exhaustively.  Returns a dict with states, distinct, depth, ok, violated, out."""
    scratch = _scratch()
    try:
        args = ["-workers", str(workers), "-metadir", str(scratch / "meta"), "-noGenerateSpecTE",
                "-config", cfg]
        if deadlock is False:
            args.append("-deadlock")  # TLC: -deadlock *disables* deadlock checking
        if coverage:
            args += ["-coverage", "1"]
        args += list(extra)
        args.append(module)
        rc, out, wall = _run(args, env, timeout, str(SPECS), heap=heap)
        m = None
        for m in _RE_STATES.finditer(out):
            pass
        res = {
            "module": module, "cfg": cfg, "rc": rc, "wall_s": round(wall, 2),
            "generated": int(m.group(1)) if m else 0,
            "distinct": int(m.group(2)) if m else 0,
            "depth": int(_RE_DEPTH.search(out).group(1)) if _RE_DEPTH.search(out) else 0,
            "violated": None, "ok": False,
        }
        mi = _RE_INV.search(out)
        mp = _RE_PROP.search(out)
        if mi:
            res["violated"] = mi.group(1)
        elif mp:
            res["violated"] = mp.group(1) or "temporal"
        elif "Temporal properties were violated" in out or "is violated" in out and "Temporal" in out:
            res["violated"] = "temporal"
        elif "Deadlock reached" in out:
            res["violated"] = "Deadlock"
        elif "Assumption" in out and "is false" in out:
            res["violated"] = "Assumption"
        finished = "Model checking completed. No error has been found." in out
        res["ok"] = finished and res["violated"] is None
        if not finished and res["violated"] is None:
            raise MachineryError(f"TLC failed on {module}/{cfg} (rc={rc}):\n{out[-3000:]}")
        if coverage:
            res["coverage"] = parse_coverage(out)
        if keep_output or res["violated"]:
            res["out"] = out
        return res
    finally:
        shutil.rmtree(scratch, ignore_errors=True)


_RE_COV = re.compile(r"^<(\w+) line \d+, col \d+ to line \d+, col \d+ of module (\w+)>: (\d+):(\d+)", re.M)


def parse_coverage(out: str) -> dict:
    cov = {}
    for m in _RE_COV.finditer(out):
        name = m.group(1)
        cov[name] = max(cov.get(name, 0), int(m.group(4)))
    return cov


def expect_counterexample(module: str, cfg: str, expected: str | None = None, **kw) -> dict:
    """Non-vacuity guard: the given (pre-fix / mutated-design) config MUST violate something."""
    res = model_check(module, cfg, **kw)
    if res["violated"] is None:
        raise MachineryError(f"vacuity: {module}/{cfg} was expected to violate {expected or 'a property'} "
                             "but TLC found no error")
    if expected and res["violated"] != expected:
        raise MachineryError(f"vacuity: {module}/{cfg} violated {res['violated']} instead of {expected}")
    return res


# --------------------------------------------------------------------------------------------
# batched trace validation
# --------------------------------------------------------------------------------------------
_RE_OK = re.compile(r'^<<"OK", (\d+)>>$')
_RE_STUCK = re.compile(r'^<<"(?:STUCK|BAD)", (\d+), (\d+), (.*)>>$')
_RE_INFO = re.compile(r'^<<"(DRIFT|INFO)", (\d+), (.*)>>$')


def printed_tuples(out: str) -> list[str]:
    """PrintT output of tuples, re-joined (TLC wraps long values over several lines)."""
    res, cur, depth = [], None, 0
    for line in out.splitlines():
        st = line.strip()
        if cur is None:
            if not st.startswith("<<"):
                continue
            cur, depth = "", 0
        cur += (" " if cur and not cur.endswith("<<") else "") + st
        depth += st.count("<<") - st.count(">>")
        if depth <= 0:
            res.append(re.sub(r"<< ", "<<", re.sub(r" >>", ">>", cur)))
            cur = None
    return res


def validate(module: str, cfg: str, doc: dict, *, timeout: int = 900, workers: int = 1,
             heap="6g", chunk: int | None = None) -> dict:
    """Validate doc["traces"] (list of event lists) against trace spec `module`.

    Returns {"accepted": [tid...], "rejected": {tid: {"at": l, "why": str}}, "states": n, ...}
    tids are 1-based positions in doc["traces"].
    """
    traces = doc["traces"]
    n = len(traces)
    if n == 0:
        return {"accepted": [], "rejected": {}, "generated": 0, "distinct": 0, "wall_s": 0.0, "runs": 0}
    chunk = chunk or n
    acc, rej, info = [], {}, {}
    gen = dist = runs = 0
    wall = 0.0
    for start in range(0, n, chunk):
        sub = dict(doc)
        sub["traces"] = traces[start:start + chunk]
        scratch = _scratch()
        try:
            tf = scratch / "traces.json"
            tf.write_text(json.dumps(sub))
            args = ["-workers", str(workers), "-metadir", str(scratch / "meta"), "-noGenerateSpecTE",
                    "-deadlock", "-config", cfg, module]
            rc, out, w = _run(args, {"TRACE_FILE": str(tf)}, timeout, str(SPECS), heap=heap)
            wall += w
            runs += 1
            if "Model checking completed. No error has been found." not in out:
                mi = _RE_INV.search(out)
                tail = "\n".join(x for x in out.splitlines() if not x.startswith(('<<"OK"', "Parsing", "Semantic", "Linting")))
                at = tail.find("Error:")
                raise MachineryError(
                    f"trace validation run of {module}/{cfg} did not complete "
                    f"({'invariant ' + mi.group(1) if mi else 'rc=' + str(rc)}):\n{tail[max(at, 0):][:3000]}")
            m = None
            for m in _RE_STATES.finditer(out):
                pass
            if m:
                gen += int(m.group(1))
                dist += int(m.group(2))
            oks, bad = set(), {}
            for tup in printed_tuples(out):
                mo = _RE_OK.match(tup)
                if mo:
                    oks.add(int(mo.group(1)))
                    continue
                mm = _RE_STUCK.match(tup)
                if mm:
                    tid, l, why = int(mm.group(1)), int(mm.group(2)), mm.group(3)
                    if tid not in bad or l < bad[tid]["at"]:
                        bad[tid] = {"at": l, "why": why}
                    continue
                mf = _RE_INFO.match(tup)
                if mf:
                    info.setdefault(start + int(mf.group(2)), []).append(mf.group(3))
            for i in range(1, len(sub["traces"]) + 1):
                if i in bad:
                    rej[start + i] = bad[i]
                elif i in oks:
                    acc.append(start + i)
                else:
                    raise MachineryError(f"trace {start + i} neither accepted nor rejected by {module}:\n{out[-3000:]}")
        finally:
            shutil.rmtree(scratch, ignore_errors=True)
    return {"accepted": acc, "rejected": rej, "info": info, "generated": gen, "distinct": dist,
            "wall_s": round(wall, 2), "runs": runs}


def validate_parallel(module: str, cfg: str, traces: list, *, parts: int = 8, extra: dict | None = None, timeout: int = 1500) -> dict:
    """validate() on `parts` slices of the traces in concurrent TLC processes (each single-worker, as the register idiom needs)"""
    from concurrent.futures import ThreadPoolExecutor

    n = len(traces)
    if n == 0:
        return {"accepted": [], "rejected": {}, "info": {}, "generated": 0, "distinct": 0, "wall_s": 0.0, "runs": 0}
    size = max(1, -(-n // parts))
    slices = [(i, traces[i:i + size]) for i in range(0, n, size)]

    def one(item):
        i, part = item
        return i, validate(module, cfg, {**(extra or {}), "traces": part}, timeout=timeout)
    out = {"accepted": [], "rejected": {}, "info": {}, "generated": 0, "distinct": 0, "wall_s": 0.0, "runs": 0}
    t0 = time.time()
    with ThreadPoolExecutor(max_workers=min(parts, len(slices))) as ex:
        for i, res in ex.map(one, slices):
            out["accepted"] += [i + a for a in res["accepted"]]
            out["rejected"].update({i + k: v for k, v in res["rejected"].items()})
            out["info"].update({i + k: v for k, v in res["info"].items()})
            out["generated"] += res["generated"]
            out["distinct"] += res["distinct"]
            out["runs"] += res["runs"]
    out["wall_s"] = round(time.time() - t0, 2)
    return out


def evaluate(module: str, cfg: str, *, env=None, timeout: int = 600, heap="4g") -> str:
    """Run TLC on a spec whose interesting output is PrintT lines; returns raw output."""
    scratch = _scratch()
    try:
        args = ["-workers", "1", "-metadir", str(scratch / "meta"), "-noGenerateSpecTE",
                "-deadlock", "-config", cfg, module]
        rc, out, _ = _run(args, env, timeout, str(SPECS), heap=heap)
        if "Model checking completed. No error has been found." not in out:
            raise MachineryError(f"TLC evaluation of {module}/{cfg} failed rc={rc}:\n{out[-3000:]}")
        return out
    finally:
        shutil.rmtree(scratch, ignore_errors=True)


def dump_graph(module: str, cfg: str, *, timeout: int = 600, env=None, heap="4g"):
    """Exhaustive run with `-dump dot,actionlabels`; returns (nodes, edges).

    nodes: {id: label-text}, edges: [(src, dst, action)], init ids in a third value.
    """
    scratch = _scratch()
    try:
        base = scratch / "graph"
        args = ["-workers", "1", "-metadir", str(scratch / "meta"), "-noGenerateSpecTE",
                "-dump", "dot,actionlabels", str(base), "-config", cfg, module]
        rc, out, _ = _run(args, env, timeout, str(SPECS), heap=heap)
        if "Model checking completed. No error has been found." not in out:
            raise MachineryError(f"TLC dump of {module}/{cfg} failed rc={rc}:\n{out[-3000:]}")
        text = (scratch / "graph.dot").read_text()
        nodes, edges, inits = {}, [], []
        for m in re.finditer(r'^(-?\d+) \[label="((?:[^"\\]|\\.)*)"([^\]]*)\]', text, re.M):
            nodes[m.group(1)] = m.group(2).replace("\\n", "\n").replace('\\"', '"').replace("\\\\", "\\")
            if "style = filled" in m.group(3):
                inits.append(m.group(1))
        for m in re.finditer(r'^(-?\d+) -> (-?\d+) \[label="((?:[^"\\]|\\.)*)"', text, re.M):
            edges.append((m.group(1), m.group(2), m.group(3)))
        m = None
        for m in _RE_STATES.finditer(out):
            pass
        stats = {"generated": int(m.group(1)), "distinct": int(m.group(2))} if m else {}
        return nodes, edges, inits, stats
    finally:
        shutil.rmtree(scratch, ignore_errors=True)


def sany(module: str) -> None:
    p = subprocess.run(["java", "-cp", JAVA_CP, "tla2sany.SANY", module], cwd=str(SPECS),
                       capture_output=True, text=True)
    if p.returncode != 0 or "Semantic errors" in p.stdout or "*** Errors" in p.stdout or "Parse Error" in p.stdout:
        raise MachineryError(f"SANY rejects {module}:\n{p.stdout[-3000:]}")
