"""`./check setup`: everything the checks need is source on disk; this only verifies the tool chain:
SANY parses every specification, PlusCal translation is up to date, known_findings.json is well formed."""
from __future__ import annotations

import json
import subprocess
import sys
from pathlib import Path

from . import tlc

VERIF = Path(__file__).resolve().parent.parent


def main() -> int:
    bad = 0
    kf = json.loads((VERIF / "known_findings.json").read_text())
    for f in kf["findings"]:
        for k in ("property", "key", "status", "what"):
            if k not in f:
                print(f"known_findings.json: entry without {k}: {f}")
                bad = 1
        if f.get("status") not in ("open", "fixed"):
            bad = 1
    for spec in sorted((VERIF / "specs").glob("*.tla")):
        try:
            tlc.sany(spec.name)
            print(f"sany ok   {spec.name}")
        except tlc.MachineryError as e:
            print(f"sany FAIL {spec.name}\n{e}")
            bad = 1
    man = json.loads((VERIF / "MANIFEST.json").read_text())
    try:
        import jsonschema

        jsonschema.validate(man, json.loads(Path("/root/.vp/MANIFEST.schema.json").read_text()))
        print("MANIFEST.json valid")
    except FileNotFoundError:
        pass
    return 2 if bad else 0


if __name__ == "__main__":
    sys.exit(main())
