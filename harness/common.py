"""Shared plumbing: repo import path, seeds, verdict/known-finding logic, evidence + replay files."""
from __future__ import annotations

import contextlib
import io
import json
import os
import sys
import time
import warnings
from pathlib import Path

VERIF = Path(__file__).resolve().parent.parent
REPO = Path(os.environ.get("VERIF_REPO", "/repo"))
# evidence and replay files of /verif describe runs against /repo itself; runs pointed at another tree (VERIF_REPO: the evaluation of
# seeded / neutral / mechanical changes on scratch worktrees) write theirs next to that tree's name under the system temp directory
OUT_ROOT = Path(__file__).resolve().parent.parent if str(REPO) == "/repo" else Path("/tmp") / "verif-eval" / REPO.name
EVIDENCE_SCHEMA = Path("/root/.vp/EVIDENCE.schema.json")
GUARD = "BLACK_IT_VERIF"


def use_repo() -> None:
    """Make `import black_it` resolve to the working tree under test (VERIF_REPO, default /repo)."""
    p = str(REPO)
    if p in sys.path:
        sys.path.remove(p)
    sys.path.insert(0, p)
    os.environ[GUARD] = "1"
    import black_it  # noqa: F401

    got = Path(black_it.__file__).resolve().parent.parent
    if got != REPO.resolve():
        raise RuntimeError(f"black_it imported from {got}, expected {REPO}")


def seed() -> int:
    try:
        return int(os.environ.get("VERIF_SEED", "0"))
    except ValueError:
        return 0


@contextlib.contextmanager
def quiet():
    """Silence black-it's prints and numeric warnings while the code under test runs."""
    buf = io.StringIO()
    with contextlib.redirect_stdout(buf), warnings.catch_warnings():
        warnings.simplefilter("ignore")
        yield buf


def shutdown_loky() -> None:
    """joblib's reusable loky workers idle for 300 s before exiting and keep their parent from being reaped:
    terminate them as soon as a worker/check is done with the code under test."""
    try:
        from joblib.externals.loky import reusable_executor as rex

        ex = getattr(rex, "_executor", None)
        if ex is not None:
            ex.shutdown(wait=True, kill_workers=True)
    except Exception:  # noqa: BLE001
        pass


class Check:
    """Accumulates what one run of one property check did; writes evidence; decides the exit code."""

    def __init__(self, pid: str, tier: str) -> None:
        self.pid = pid
        self.tier = tier
        self.seed = seed()
        self.t0 = time.time()
        self.states = 0
        self.transitions = 0
        self.traces = 0
        self.evaluations = 0
        self.samples: list = []
        self.extra: dict = {}
        self.assumptions: list[str] = []
        self.violations: list[dict] = []   # {"key":..., "what":..., "replay": {...}}
        self.known_hits: list[dict] = []
        self.mc_runs: list[dict] = []
        kf = json.loads((VERIF / "known_findings.json").read_text())
        self.open = [f for f in kf["findings"] if f["property"] == pid and f["status"] == "open"]

    # -- model checking bookkeeping -------------------------------------------------------
    def add_mc(self, res: dict, note: str = "") -> None:
        self.states += res.get("distinct", 0)
        self.transitions += res.get("generated", 0)
        self.mc_runs.append({k: res[k] for k in ("module", "cfg", "generated", "distinct", "depth", "wall_s", "violated")
                             if k in res} | ({"note": note} if note else {}))

    def add_validation(self, res: dict, n_traces: int | None = None) -> None:
        self.states += res.get("distinct", 0)
        self.transitions += res.get("generated", 0)
        self.traces += n_traces if n_traces is not None else len(res["accepted"]) + len(res["rejected"])

    def sample(self, obj, limit: int = 6) -> None:
        if len(self.samples) < limit:
            self.samples.append(obj)

    # -- verdicts -----------------------------------------------------------------------------
    def violation(self, key: str, what: str, replay: dict) -> None:
        """Record a property violation observed on the real code.  `key` classifies the failing
        input / call site / history so that an *open* known finding with the same key is reported
        as KNOWN-FINDING instead."""
        for f in self.open:
            if f["key"] == key:
                if not any(h["key"] == key for h in self.known_hits):
                    self.known_hits.append({"key": key, "what": f["what"]})
                return
        if any(v["key"] == key for v in self.violations) and len(self.violations) > 40:
            return
        self.violations.append({"key": key, "what": what, "replay": replay})

    def finish(self, rule: str, exhaustive: bool = False) -> int:
        wall = time.time() - self.t0
        for h in self.known_hits:
            print(f"KNOWN-FINDING: property={self.pid} {h['what']} [key={h['key']}]")
        rc = 0
        if self.violations:
            rc = 1
            seen = set()
            for i, v in enumerate(self.violations):
                if v["key"] in seen:
                    continue
                seen.add(v["key"])
                path = OUT_ROOT / "replays" / f"{self.pid}-{_slug(v['key'])}.json"
                path.parent.mkdir(parents=True, exist_ok=True)
                rep = {"property": self.pid, "key": v["key"], "what": v["what"], "tier": self.tier,
                       "seed": self.seed, **v["replay"]}
                path.write_text(json.dumps(rep, indent=1, default=_jd))
                print(f"VIOLATION property={self.pid} replay={path}")
                print(f"  what: {v['what']}")
        cov = {
            "states": self.states, "transitions": self.transitions,
            "traces_validated_against_impl": self.traces,
            "samples": self.samples or [{"note": "no sample recorded"}],
            "evaluations": max(self.evaluations, self.traces),
            "rule": rule, "exhaustive": exhaustive,
            "tlc_runs": self.mc_runs,
            "known_findings_hit": [h["key"] for h in self.known_hits],
        }
        cov.update(self.extra)
        ev = {
            "property_id": self.pid, "tier": self.tier, "seed": self.seed, "level": "model_checking",
            "coverage": cov, "assumptions": self.assumptions, "wall_s": round(wall, 2),
            "violations": len({v["key"] for v in self.violations}),
        }
        if self.states < 1 or self.transitions < 1:
            # the run ended before TLC explored anything (the code under test crashed or did not return): no model-checking coverage to report
            ev["level"] = "other"
            cov["explanation"] = "this run ended before any state was explored: " + rule
        _write_evidence(self.pid, ev)
        print(f"[{self.pid}] tier={self.tier} seed={self.seed} states={self.states} transitions={self.transitions} "
              f"traces={self.traces} violations={ev['violations']} known={len(self.known_hits)} wall={wall:.1f}s")
        return rc


def _slug(s: str) -> str:
    return "".join(c if c.isalnum() or c in "-_." else "_" for c in s)[:80]


def _jd(o):
    import numpy as np

    if isinstance(o, np.ndarray):
        return o.tolist()
    if isinstance(o, (np.integer,)):
        return int(o)
    if isinstance(o, (np.floating,)):
        return float(o)
    if isinstance(o, (set, frozenset, tuple)):
        return list(o)
    return repr(o)


def jsonable(o):
    return json.loads(json.dumps(o, default=_jd))


def _write_evidence(pid: str, ev: dict) -> None:
    import jsonschema

    ev = jsonable(ev)
    schema = json.loads(EVIDENCE_SCHEMA.read_text()) if EVIDENCE_SCHEMA.exists() else None
    if schema is not None:
        jsonschema.validate(ev, schema)
    out = OUT_ROOT / "evidence" / f"{pid}.json"
    out.parent.mkdir(parents=True, exist_ok=True)
    out.write_text(json.dumps(ev, indent=1))
