"""C06 - an interrupted checkpoint save is never restored as a silent hybrid.

design    : Checkpoint.tla with Crash enabled before / inside / after every file operation of the five-file save on top of every kind of
            previous folder, and an exception at every statement of the SQLite save.  TLC (i) refutes NoSilentHybrid for the pinned
            JSON back-end and FailedSaveKeepsPrevious for the pinned SQLite save, (ii) proves both for a repaired design (generation
            cross-check at load, DELETE inside the transaction), (iii) tabulates the predicted outcome of a restore for every crash point.
conformance: every crash point is *materialised* on disk from the bytes of a real previous checkpoint and a real new one (files before
            the point new, after it old, the file at the point truncated to k bytes; write order observed from the real save), then the
            real load_calibrator_state + Calibrator.restore_from_checkpoint run and the result is classified per component and validated
            by TLC (CheckpointTrace.tla: NoSilentHybrid).  SQLite: a proxy connection raises at the k-th statement of the real save.
"""
from __future__ import annotations

import random
import shutil
import sqlite3
import tempfile
from pathlib import Path

from . import ckpt, tlc
from .common import Check, quiet

PAIRS = [("empty", None, ("A", 3)), ("same-run", ("A", 2), ("A", 3)), ("other-run-fewer", ("B", 1), ("A", 3)),
         ("other-run-equal", ("B", 3), ("A", 3)), ("other-run-more", ("B", 4), ("A", 3)), ("same-run", ("A", 1), ("A", 4))]


def predictions() -> dict:
    out = tlc.evaluate("MC_Checkpoint", "MC_C06_tab.cfg")
    pred: dict = {}
    n = 0
    for tup in tlc.printed_tuples(out):
        if not tup.startswith('<<"CP", '):
            continue
        parts = [x.strip().strip('"') for x in tup[2:-2].replace("<<", "").replace(">>", "").split(",")]
        _, before, at, sub, _k, cut, _rows, outcome = parts
        pred.setdefault((before, at, sub if sub != "partial" else ("partial-cut" if cut == "TRUE" else "partial")), set()).add(outcome)
        n += 1
    return pred, n


def csv_points(b: bytes, tier: str, rng: random.Random) -> list[tuple[int, str]]:
    """byte offsets inside the record file: every record boundary and positions inside fields"""
    bounds = [i + 1 for i, c in enumerate(b) if c == 10]
    pts = [(k, "partial") for k in bounds[:-1]]
    if tier == "thorough":
        pts += [(k, "partial-cut") for k in range(1, len(b)) if k not in bounds]
    else:
        for lo, hi in zip([0, *bounds], bounds):
            mids = [k for k in range(lo + 1, hi) if k not in bounds]
            pts += [(k, "partial-cut") for k in rng.sample(mids, min(3, len(mids)))]
    return sorted(set(pts))


def opaque_points(b: bytes, tier: str, rng: random.Random) -> list[int]:
    if tier == "thorough":
        step = max(1, len(b) // 400)
        return sorted(set(range(1, len(b), step)) | {len(b) - 1})
    return sorted({1, len(b) // 3, 2 * len(b) // 3, len(b) - 1} | {rng.randrange(1, len(b)) for _ in range(2)})


def json_crash_traces(tier: str, rng: random.Random, pred: dict):
    known = ckpt.Known(["A", "B"], "json")
    traces, drift, points = [], 0, 0
    for before, prev, new in PAIRS:
        p_dir = tempfile.mkdtemp(prefix="verif-c06-p-")
        n_dir = tempfile.mkdtemp(prefix="verif-c06-n-")
        x_dir = tempfile.mkdtemp(prefix="verif-c06-x-")
        try:
            with quiet():
                if prev:
                    ckpt.save(p_dir, *prev, "json")
                old = ckpt.folder_bytes(p_dir) if prev else {}
                ckpt.write_folder(n_dir, old)
                ckpt.save(n_dir, *new, "json")
            neu = ckpt.folder_bytes(n_dir)
            order = ckpt.observed_write_order(n_dir)
            if sorted(order) != sorted(ckpt.FILES):
                order = list(ckpt.FILES)
            cases = []
            for i, f in enumerate(order):
                a = ckpt.ABSTRACT[f]
                at_w, at_m = f"w_{a}", f"m_{a}"
                base = {g: neu[g] for g in order[:i]}
                rest = {g: old[g] for g in order[i:] if g in old}
                cases.append((at_w, "clean", f, {**base, **rest}))                                  # before opening file i
                if a != "h5":
                    cases.append((at_m, "clean", f, {**base, **{g: v for g, v in rest.items() if g != f}, f: b""}))   # truncated
                    pts = csv_points(neu[f], tier, rng) if a == "csv" else [(k, "partial") for k in opaque_points(neu[f], tier, rng)]
                    for k, sub in pts:
                        cases.append((at_m, sub, f, {**base, **{g: v for g, v in rest.items() if g != f}, f: neu[f][:k]}))
                elif f not in old:
                    for k in opaque_points(neu[f], "quick", rng):
                        cases.append((at_w, "partial", f, {**base, f: neu[f][:k]}))
            cases.append(("done", "clean", "-", dict(neu)))      # (no crash: the completed save, checked as C04 would)
            for at, sub, f, files in cases:
                points += 1
                ckpt.write_folder(x_dir, files)
                with quiet():
                    ev_load = ckpt.load(x_dir, "json", known, [new] + ([prev] if prev else []))
                    if not ev_load["err"]:
                        # the public entry point must agree: a folder load_calibrator_state accepts may still fail in restore
                        try:
                            from black_it.calibrator import Calibrator

                            def model_A(theta, N, seed):  # noqa: ARG001, N802, N803
                                return None

                            model_A.__name__ = "model_" + ev_load["comp"]["params"][0]
                            Calibrator.restore_from_checkpoint(x_dir, model=model_A)
                        except Exception as e:  # noqa: BLE001
                            ev_load = {**ev_load, "err": True, "what": f"restore: {type(e).__name__}: {e}"[:160]}
                evs = ([{"e": "save", "b": "json", "run": prev[0], "rows": prev[1]}] if prev else [])
                if at != "done":
                    evs.append({"e": "interrupted", "b": "json", "run": new[0], "rows": new[1], "point": f"{at}:{sub}"})
                else:
                    evs.append({"e": "save", "b": "json", "run": new[0], "rows": new[1]})
                evs.append(ev_load)
                real = outcome(ev_load, prev, new)
                want = pred.get((before, at, sub))
                if want is not None and real not in want:
                    drift += 1
                traces.append({"ev": evs, "before": before, "at": at, "sub": sub, "file": f, "real": real,
                               "predicted": sorted(want) if want else None, "prev": prev, "new": new})
        finally:
            for d in (p_dir, n_dir, x_dir):
                shutil.rmtree(d, ignore_errors=True)
    return traces, drift, points


def outcome(ev_load: dict, prev, new) -> str:
    if ev_load["err"]:
        return "error"
    if prev and ev_load["comp"] == ckpt.whole(*prev):
        return "previous"
    if ev_load["comp"] == ckpt.whole(*new):
        return "new"
    return "hybrid"


# ---- SQLite: exception at every statement of the real save -----------------------------------------
class _Boom(RuntimeError):
    pass


class _Interrupt(BaseException):
    """an interrupt that is not an Exception (KeyboardInterrupt, SystemExit, ...)"""


class _ProxyCursor:
    def __init__(self, cur, ctl):
        self._c, self._ctl = cur, ctl

    def execute(self, *a, **k):
        self._ctl.tick("execute:" + a[0].strip().split()[0].upper())
        return self._c.execute(*a, **k)

    def executescript(self, *a, **k):
        self._ctl.tick("executescript")
        return self._c.executescript(*a, **k)

    def __getattr__(self, n):
        return getattr(self._c, n)


class _ProxyConn:
    def __init__(self, conn, ctl):
        self._c, self._ctl = conn, ctl

    def cursor(self, *a, **k):
        self._ctl.tick("cursor")
        return _ProxyCursor(self._c.cursor(*a, **k), self._ctl)

    def commit(self):
        self._ctl.tick("commit")
        return self._c.commit()

    def __getattr__(self, n):
        return getattr(self._c, n)


class _Ctl:
    def __init__(self, fail_at, exc=_Boom):
        self.n, self.fail_at, self.names, self.exc = 0, fail_at, [], exc

    def tick(self, name):
        self.n += 1
        self.names.append(name)
        if self.n == self.fail_at:
            raise self.exc(name)


BIG = (2, 12000, 8)          # a series block well beyond SQLite's default page cache (~2 MB): dirty pages reach the file before COMMIT


def sqlite_fault_traces():
    from black_it.utils import sqlite3_checkpointing as mod

    traces = []
    real_connect = sqlite3.connect
    for shape, pairs in (((2, 5, 1), PAIRS), (BIG, [("same-run", ("A", 2), ("A", 3)), ("other-run-more", ("B", 4), ("A", 3))])):
        known = ckpt.Known(["A", "B"], "sqlite", shape)
        traces += _sqlite_faults(mod, real_connect, known, pairs, shape)
    return traces


def _sqlite_faults(mod, real_connect, known, pairs, shape):
    traces = []
    for interrupt in (False, True):
        traces += _sqlite_faults_1(mod, real_connect, known, pairs, shape, interrupt)
    return traces


def _sqlite_faults_1(mod, real_connect, known, pairs, shape, interrupt):
    traces = []
    for before, prev, new in pairs:
        k = 1
        while True:
            folder = tempfile.mkdtemp(prefix="verif-c06-sql-")
            try:
                evs = []
                with quiet():
                    if prev:
                        ckpt.save(folder, *prev, "sqlite", shape)
                        evs.append({"e": "save", "b": "sqlite", "run": prev[0], "rows": prev[1]})
                    ctl = _Ctl(k, _Interrupt if interrupt else _Boom)

                    class _Shim:
                        def __getattr__(self, n):
                            return getattr(sqlite3, n)

                        @staticmethod
                        def connect(*a, **kw):
                            return _ProxyConn(real_connect(*a, **kw), ctl)

                    orig = mod.sqlite3
                    mod.sqlite3 = _Shim()
                    try:
                        raised = False
                        try:
                            ckpt.save(folder, *new, "sqlite", shape)
                        except (_Boom, _Interrupt):
                            raised = True
                    finally:
                        mod.sqlite3 = orig
                    if not raised:
                        break                      # k is past the last statement
                    evs.append({"e": "interrupted", "b": "sqlite", "run": new[0], "rows": new[1], "point": ctl.names[-1]})
                    evs.append(ckpt.load(folder, "sqlite", known, [new] + ([prev] if prev else [])))
                traces.append({"ev": evs, "before": before, "at": ctl.names[-1], "sub": f"statement {k}" + (" (large state)" if shape == BIG else "") + (" (BaseException)" if interrupt else ""), "file": "checkpoint.sqlite",
                               "real": outcome(evs[-1], prev, new), "predicted": None, "prev": prev, "new": new})
            finally:
                shutil.rmtree(folder, ignore_errors=True)
            k += 1
    return traces


# ---- SQLite: the saving PROCESS dies at every statement of a large save (a hot journal is left behind) -------------------------
def _kill_child(args):
    folder, new, shape, k, repo = args
    import os

    os.environ["VERIF_REPO"] = repo
    from . import common

    common.use_repo()
    from black_it.utils import sqlite3_checkpointing as mod

    real_connect = sqlite3.connect

    class Die(_Ctl):
        def tick(self, name):
            self.n += 1
            if self.n == self.fail_at:
                os._exit(7)            # no rollback, no close: what a kill -9 or a power cut leaves

    ctl = Die(k)

    class _Shim:
        def __getattr__(self, n):
            return getattr(sqlite3, n)

        @staticmethod
        def connect(*a, **kw):
            return _ProxyConn(real_connect(*a, **kw), ctl)

    mod.sqlite3 = _Shim()
    with quiet():
        ckpt.save(folder, *new, "sqlite", shape)
    os._exit(0)


def sqlite_kill_traces():
    import multiprocessing as mp

    from .common import REPO

    known = ckpt.Known(["A", "B"], "sqlite", BIG)
    traces = []
    ctx = mp.get_context("spawn")
    for before, prev, new in [("same-run", ("A", 2), ("A", 3)), ("other-run-more", ("B", 4), ("A", 3))]:
        for k in range(1, 12):
            folder = tempfile.mkdtemp(prefix="verif-c06-kill-")
            try:
                with quiet():
                    ckpt.save(folder, *prev, "sqlite", BIG)
                p = ctx.Process(target=_kill_child, args=((folder, new, BIG, k, str(REPO)),))
                p.start()
                p.join(300)
                if p.exitcode != 7:
                    if p.is_alive():
                        p.kill()
                    break                  # k is past the last statement (the save completed) - or the child could not run
                evs = [{"e": "save", "b": "sqlite", "run": prev[0], "rows": prev[1]},
                       {"e": "interrupted", "b": "sqlite", "run": new[0], "rows": new[1], "point": f"process death at statement {k}"}]
                with quiet():
                    evs.append(ckpt.load(folder, "sqlite", known, [new, prev]))
                traces.append({"ev": evs, "before": before, "at": f"kill:{k}", "sub": f"process death at statement {k} (large state)", "file": "checkpoint.sqlite",
                               "real": outcome(evs[-1], prev, new), "predicted": None, "prev": prev, "new": new})
            finally:
                shutil.rmtree(folder, ignore_errors=True)
    return traces


# ---- JSON/pandas back-end: an exception raised by every serialisation primitive of the real save ---------------------------
class _ModShim:
    """stands for a module inside json_pandas_checkpointing: the named callables tick (and may fail) before they run"""

    def __init__(self, real, ctl, names, label):
        self._r, self._ctl, self._names, self._label = real, ctl, names, label

    def __getattr__(self, n):
        v = getattr(self._r, n)
        if n in self._names:
            ctl, label = self._ctl, self._label

            def call(*a, **k):
                ctl.tick(f"{label}.{n}")
                if ctl.partial == ctl.n and n == "dump":          # the serialiser fails half-way: some bytes are already written
                    data = self._r.dumps(a[0]) if label == "pickle" else self._r.dumps(a[0], **k).encode()
                    a[1].write(data[: len(data) // 2] if label == "pickle" else data[: len(data) // 2].decode())
                    raise ctl.exc(f"{label}.{n} (half-way)")
                return v(*a, **k)
            return call
        return v


class _H5Dataset:
    def __init__(self, ds, ctl):
        self._d, self._ctl = ds, ctl

    def __setitem__(self, k, v):
        self._ctl.tick("h5.Dataset.__setitem__")
        self._d[k] = v

    def __getitem__(self, k):
        return self._d[k]

    def resize(self, *a, **k):
        self._ctl.tick("h5.Dataset.resize")
        return self._d.resize(*a, **k)

    def __getattr__(self, n):
        return getattr(self._d, n)


class _H5File:
    """h5py.File whose data-set operations tick as well (create_dataset, resize, element assignment)"""

    def __init__(self, f, ctl):
        self._f, self._ctl = f, ctl

    def __enter__(self):
        self._f.__enter__()
        return self

    def __exit__(self, *exc):
        return self._f.__exit__(*exc)

    def __getitem__(self, k):
        return _H5Dataset(self._f[k], self._ctl)

    def create_dataset(self, *a, **k):
        self._ctl.tick("h5.create_dataset")
        return _H5Dataset(self._f.create_dataset(*a, **k), self._ctl)

    def __getattr__(self, n):
        return getattr(self._f, n)


class _H5Shim:
    def __init__(self, real, ctl):
        self._r, self._ctl = real, ctl

    def File(self, *a, **k):  # noqa: N802
        self._ctl.tick("h5py.File")
        return _H5File(self._r.File(*a, **k), self._ctl)

    def __getattr__(self, n):
        return getattr(self._r, n)


class _PdShim:
    def __init__(self, real, ctl):
        self._r, self._ctl = real, ctl

    def __getattr__(self, n):
        if n != "DataFrame":
            return getattr(self._r, n)
        real, ctl = self._r, self._ctl

        class DF:
            @staticmethod
            def from_dict(*a, **k):
                df = real.DataFrame.from_dict(*a, **k)

                class P:
                    def to_csv(self, *a2, **k2):
                        ctl.tick("DataFrame.to_csv")
                        return df.to_csv(*a2, **k2)

                    def __getattr__(self, m):
                        return getattr(df, m)
                return P()
        return DF


def json_fault_traces():
    """the real five-file save with an exception raised by its k-th serialisation primitive (json.dump, pickle.dump/dumps,
    DataFrame.to_csv, h5py.File): instead of doing its work, or (dump) after half of the bytes"""
    from black_it.utils import json_pandas_checkpointing as mod

    known = ckpt.Known(["A", "B"], "json")
    traces = []
    for before, prev, new in PAIRS:
        for half in (False, True):
            k = 1
            while True:
                folder = tempfile.mkdtemp(prefix="verif-c06-jf-")
                try:
                    evs = []
                    with quiet():
                        if prev:
                            ckpt.save(folder, *prev, "json")
                            evs.append({"e": "save", "b": "json", "run": prev[0], "rows": prev[1]})
                        ctl = _Ctl(k)
                        ctl.partial = k if half else -1
                        if half:
                            ctl.fail_at = -1
                        orig = (mod.json, mod.pickle, mod.pd, mod.h5py)
                        mod.json = _ModShim(orig[0], ctl, {"dump", "dumps"}, "json")
                        mod.pickle = _ModShim(orig[1], ctl, {"dump", "dumps"}, "pickle")
                        mod.pd = _PdShim(orig[2], ctl)
                        mod.h5py = _H5Shim(orig[3], ctl)
                        try:
                            raised = False
                            try:
                                ckpt.save(folder, *new, "json")
                            except _Boom:
                                raised = True
                        finally:
                            mod.json, mod.pickle, mod.pd, mod.h5py = orig
                        if not raised:
                            if not half or k > len(ctl.names):
                                break
                            k += 1          # (half-way failures exist for dump only: other primitives run normally at that k)
                            continue
                        point = ctl.names[-1] + (":half-way" if half else "")
                        evs.append({"e": "interrupted", "b": "json", "run": new[0], "rows": new[1], "point": point})
                        evs.append(ckpt.load(folder, "json", known, [new] + ([prev] if prev else [])))
                    traces.append({"ev": evs, "before": before, "at": "exc", "sub": f"{point}#{k}", "file": point, "real": outcome(evs[-1], prev, new),
                                   "predicted": None, "prev": prev, "new": new})
                finally:
                    shutil.rmtree(folder, ignore_errors=True)
                k += 1
    return traces


# ------------------------------------------------------------------------------------------------
def run(tier: str) -> int:
    chk = Check("C06", tier)
    rng = random.Random(600 + chk.seed)
    r = tlc.model_check("MC_Checkpoint", "MC_C06_sound.cfg", workers=8, deadlock=False)
    if not r["ok"]:
        raise tlc.MachineryError(f"MC_C06_sound violates {r['violated']}")
    chk.add_mc(r, "a repaired design (every file carries the state's identity and load cross-checks it; DELETE inside the INSERT "
                  "transaction) satisfies NoSilentHybrid / FailedSaveKeepsPrevious at every crash point")
    chk.add_mc(tlc.expect_counterexample("MC_Checkpoint", "MC_C06_pinned.cfg", "NoSilentHybrid", workers=4, deadlock=False),
               "pinned five-file save without cross-check: silent hybrid reachable")
    chk.add_mc(tlc.expect_counterexample("MC_Checkpoint", "MC_C06_sqlpinned.cfg", "FailedSaveKeepsPrevious", workers=4, deadlock=False),
               "pinned SQLite save (DELETE committed by executescript): failed save loses the previous checkpoint")
    pred, n_pred = predictions()
    chk.extra["tlc_crash_points_tabulated"] = n_pred
    traces, drift, points = json_crash_traces(tier, rng, pred)
    sql = sqlite_fault_traces()
    jf = json_fault_traces()
    chk.extra["json_exception_points"] = len(jf)
    kl = sqlite_kill_traces()
    chk.extra["sqlite_process_deaths"] = len(kl)
    sql = sql + kl
    allt = traces + sql + jf
    doc = {"traces": [{"ev": [_tl(e) for e in t["ev"]]} for t in allt]}
    res = tlc.validate("CheckpointTrace", "CheckpointTrace.cfg", doc, chunk=3000)
    chk.add_validation(res)
    chk.evaluations = len(allt)
    chk.extra.update({"json_crash_points_materialised": points, "sqlite_fault_points": len(sql),
                      "outcomes": {o: sum(1 for t in allt if t["real"] == o) for o in ("error", "previous", "new", "hybrid")},
                      "outcome_differs_from_model_prediction": drift,
                      "distinct_nontrivial": len({(t["before"], t["at"], t["sub"], t["real"]) for t in allt})})
    for t in allt[:2] + sql[:1]:
        chk.sample({"before": t["before"], "at": t["at"], "sub": t["sub"], "real": t["real"], "predicted": t["predicted"], "events": t["ev"]})
    for tid, why in res["rejected"].items():
        t = allt[tid - 1]
        ev = t["ev"][-1]
        b = ev["b"]
        if b == "json":
            sub = "partial" if t["sub"].startswith("partial") else t["sub"]
            key = f"json:{ckpt.ABSTRACT.get(t['file'], t['file'])}:{'before-open' if t['at'].startswith('w_') else sub if t['sub'] != 'clean' else 'truncated'}:{'noprev' if t['prev'] is None else 'prev'}"
            if t["at"] == "done":
                key = "json:complete-save"
            if t["at"] == "exc":
                ctx = "noprev" if t["prev"] is None else "prev"
                if t["file"].startswith("h5.") and t["prev"] is not None:
                    ctx = "append" if t["before"] == "same-run" else "rewrite"      # the two branches of the series-file logic
                key = f"json:exception-in:{t['file']}:{ctx}"
        else:
            key = f"sqlite:{t['at']}:{'noprev' if t['prev'] is None else 'prev'}"
        comp = "error" if ev["err"] else {k: v for k, v in ev["comp"].items()}
        chk.violation(key, f"{b}: save of {t['new']} over {t['before']} {t['prev']} interrupted at {t['at']} ({t['sub']}, file {t['file']}): "
                           f"restore returns {comp}", {"before": t["before"], "prev": t["prev"], "new": t["new"], "at": t["at"],
                                                       "sub": t["sub"], "file": t["file"], "events": t["ev"], "tlc": why})
    return chk.finish("every crash point of the five-file save (per file: not yet opened, truncated, cut at every record boundary and inside "
                      "fields of the CSV [thorough: at every byte], cut inside the JSON / pickles / a newly created HDF5) on top of {no, "
                      "same-run, other-run fewer/equal/more rows} previous checkpoints, materialised from real bytes and restored with the "
                      "real code; an exception at every statement of the real SQLite save", exhaustive=(tier == "thorough"))


def _tl(e: dict) -> dict:
    if e["e"] == "load":
        return {"e": "load", "b": e["b"], "err": e["err"], "comp": e["comp"]}
    return {k: v for k, v in e.items() if k not in ("what",)}


def replay(rep: dict) -> int:
    """re-materialise: the stored crash point is identified by (prev, new, at, sub); run the whole enumeration and keep matching points"""
    chk = Check("C06", "quick")
    rng = random.Random(600)
    pred, _ = predictions()
    traces, _d, _p = json_crash_traces("quick", rng, pred)
    traces += sqlite_fault_traces() + json_fault_traces()
    sel = [t for t in traces if t["at"] == rep["at"] and t["before"] == rep["before"]] or traces
    res = tlc.validate("CheckpointTrace", "CheckpointTrace.cfg", {"traces": [{"ev": [_tl(e) for e in t["ev"]]} for t in sel]})
    chk.add_validation(res)
    for tid, why in res["rejected"].items():
        chk.violation("replay:" + sel[tid - 1]["at"], why["why"], {"events": sel[tid - 1]["ev"]})
    return chk.finish("replay")
