"""C03 - every proposed parameter vector belongs to the declared search space (SamplerContract.tla)."""
from __future__ import annotations

import random

from . import samplers_h as sh
from . import tlc
from .common import Check


def jobs_for(tier: str, rng: random.Random, *, extreme=False, watch=False, names=None) -> list[dict]:
    jobs = []
    n_spaces = 22 if tier == "quick" else 160
    for i in range(n_spaces):
        for name in (names or sh.NAMES):
            heavy = name in ("CORSSampler", "GaussianProcessSampler", "RandomForestSampler")
            if heavy and tier == "quick" and i % 3:
                continue
            bounds, prec, rem = sh.random_space(rng, max_dims=3 if name == "CORSSampler" else 6, heavy=heavy)
            jobs.append({"name": name, "bounds": bounds, "prec": prec, "rem": rem, "bs": rng.randint(1, 2 if heavy else 4),
                         "seed": rng.randrange(2**31), "ncalls": 4 if not heavy else 3, "rseed": rng.randrange(2**31),
                         "extreme": extreme, "watch": watch})
    # finite losses beyond the float32 range (one-sided or two-sided): XGBoost has to return its batch all the same
    for i in range(8 if tier == "quick" else 60):
        bounds, prec, rem = sh.random_space(rng, max_dims=4)
        jobs.append({"name": "XGBoostSampler", "bounds": bounds, "prec": prec, "rem": rem, "bs": rng.randint(1, 3), "seed": rng.randrange(2**31),
                     "ncalls": 3, "rseed": rng.randrange(2**31), "extreme": "finite", "watch": watch})
    # histories held as integers / in single precision on grids with elements that are neither (the proposal is a grid element all the same)
    templates = [(0.0, 10.0, 2.5), (-3.0, 3.0, 1.5), (0.0, 1.0, 0.1), (0.0, 2.0, 0.25), (-1.0, 1.0, 0.5), (0.0, 6.0, 0.75), (5.0, 6.0, 0.1)]
    for i in range(12 if tier == "quick" else 120):
        d = rng.randint(1, 4)
        dims = [rng.choice(templates) for _ in range(d)]
        jobs.append({"name": rng.choice(["BestBatchSampler", "BestBatchSampler", "ParticleSwarmSampler", "XGBoostSampler"]),
                     "bounds": [[t[0] for t in dims], [t[1] for t in dims]], "prec": [t[2] for t in dims], "rem": [0] * d, "bs": rng.randint(1, 3),
                     "seed": rng.randrange(2**31), "ncalls": 4, "rseed": rng.randrange(2**31), "extreme": False, "watch": watch,
                     "typed": "int" if i % 2 else "f32"})
    return jobs


def design(chk: Check) -> None:
    r = tlc.model_check("SamplerContract", "MC_C03.cfg", workers=8, deadlock=False)
    if not r["ok"]:
        raise tlc.MachineryError(f"SamplerContract design violates {r['violated']}")
    chk.add_mc(r, "best-batch step (shock, clip, snap) stays on the grid for every grid size / remainder / parent / shock; surrogate selection "
                  "returns the lowest predictions under ties")
    chk.add_mc(tlc.expect_counterexample("SamplerContract", "MC_C03_pinned.cfg", "OnGrid", workers=4, deadlock=False),
               "pinned best-batch (clip to the bounds without snapping) leaves the grid when the range is not a multiple of the precision")


def run(tier: str) -> int:
    chk = Check("C03", tier)
    rng = random.Random(300 + chk.seed)
    design(chk)
    results = sh.run_jobs(jobs_for(tier, rng))
    return finish(chk, results, {"sample"}, "random search spaces (1-6 parameters, bounds negative / zero / positive / spanning zero, scales 1e-3..1e4, "
                  "1-1000 steps, ranges that are and are not multiples of the precision) x the nine built-in samplers with option lattices "
                  "x 2-3 successive sample() calls on the same object with an on-grid history (ties) growing like in a calibration; every "
                  "returned coordinate located in param_grid by exact float equality and validated by TLC (Shape, OnGrid)")


def finish(chk: Check, results, kinds: set, rule: str) -> int:
    evs = [e for r in results for e in r]
    # a sampler that refuses its input (raises) returns nothing and is no violation of C03/C16 - unless it modified the history first
    raised = [e for e in evs if e["e"] == "sample-raised"]
    chk.extra["sampler_raised"] = sorted({f"{e['cls']}: {e['what'][:70]}" for e in raised})
    for e in raised:
        if not e.get("histsame", True) and chk.pid == "C16":
            chk.violation(f"{e['cls']}:history-modified", f"{e['cls']} modified the history before raising {e['what']}", {"event": e})
        if e.get("ordinary"):
            # ... and on an ordinary history (finite losses of ordinary size) a built-in sampler has to return its batch
            chk.violation(f"{e['cls']}:raised-on-ordinary-history:{e['what'].split(':')[0]}",
                          f"{e['cls']}.sample raised {e['what']} on an on-grid history with finite losses (call {e['call']}, batch size {e['bs']}, "
                          f"options {e['kw']})", {"event": e})
    use = [e for e in evs if e["e"] in kinds]
    res = tlc.validate_parallel("SamplerContractTrace", "SamplerContractTrace.cfg", [[sh.strip(e)] for e in use], parts=12)
    chk.add_validation(res)
    chk.evaluations = len(use)
    chk.extra["calls_per_sampler"] = {n: sum(1 for e in use if e.get("cls") == n and e["e"] == "sample") for n in sh.NAMES}
    chk.extra["distinct_nontrivial"] = len({repr((e.get("cls"), e.get("bounds"), e.get("prec"), e.get("seed"), e.get("call"))) for e in use})
    for e in use[:3]:
        chk.sample({k: v for k, v in e.items() if k != "raw"})
    for tid, why in res["rejected"].items():
        e = use[tid - 1]
        w = why["why"].strip('"')
        if e["e"] == "sample-raised":
            key = f"{e['cls']}:raised:{e['what'].split(':')[0]}"
            what = f"{e['cls']}.sample raised {e['what']} (call {e['call']}, options {e['kw']})"
        else:
            key = f"{e.get('cls', 'BestBatchSampler' if e['e'] == 'bestbatch' else '?')}:{w}"
            what = f"{key} bounds={e.get('bounds')} precision={e.get('prec')} options={e.get('kw')} returned={e.get('raw')}"
        if chk.pid == "C03" and w not in ("shape", "offgrid", "out-of-bounds") and e["e"] != "sample-raised":
            continue
        if chk.pid == "C16" and w in ("shape", "offgrid", "out-of-bounds"):
            continue
        chk.violation(key, what, {"event": e, "tlc": why})
    return chk.finish(rule)


def replay(rep: dict) -> int:
    chk = Check("C03", "quick")
    e = rep["event"]
    rng = random.Random(1)
    name = e.get("cls", "BestBatchSampler")
    if e.get("job"):
        return finish(chk, sh.run_jobs([e["job"]], procs=1), {"sample", "bestbatch", "select"} if e["job"].get("watch") else {"sample"}, "replay of the stored job")
    results = sh.run_jobs([{"name": name, "bounds": e["bounds"], "prec": e["prec"], "rem": e.get("rem", [0] * len(e["prec"])), "bs": e["bs"],
                            "seed": e["seed"], "ncalls": 3, "rseed": 1, "typed": e.get("typed")}], procs=1)
    return finish(chk, results, {"sample"}, "replay")
