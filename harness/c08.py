"""C08 - the loss interface is pure, weight-linear and coordinate-symmetric (LossInterface.tla / LossInterfaceTrace.tla)."""
from __future__ import annotations

import itertools
import random

import numpy as np

from . import ckpt, tlc
from .common import Check, quiet

N = 3


def series_of(sym: int) -> np.ndarray:
    return np.array([float(sym), float(sym) + 10.0, float(sym) + 20.0])


def table_case(D, E, V, w, f, sim, real, ktab, rng, typed=None, wscale=None) -> dict:  # noqa: N803
    """one compute_loss call of a BaseLoss subclass whose single-coordinate loss is the table ktab"""
    from black_it.loss_functions.base import BaseLoss

    calls = []
    lut = {tuple(r[:-1]): r[-1] for r in ktab}

    typed = (rng.random() < 0.3) if typed is None else typed       # integer-typed data (a model returning counts) with filters that return non-integers

    def sym_of(x) -> int:
        x = float(x)
        return int(np.ceil(x)) if x != np.floor(x) else int(x)      # a filtered value is its symbol minus one half (typed mode)

    class TableLoss(BaseLoss):
        def compute_loss_1d(self, sim_data_ensemble, real_data):
            key = [sym_of(sim_data_ensemble[m][0]) for m in range(sim_data_ensemble.shape[0])] + [int(real_data[0])]
            calls.append(key)
            return float(lut.get(tuple(key), -77))

    def mk_filter(tab):
        if tab is None:
            return None
        if typed:
            return lambda s: series_of(tab[int(s[0])]) - 0.5
        return lambda s: series_of(tab[int(s[0])])

    filters = [mk_filter(t) for t in f]
    # explicit weights are also given on a tiny scale (an exact power of two: the weighted sum stays exact)
    if wscale is None:
        wscale = 2.0 ** -rng.choice([30, 40]) if (w is not None and rng.random() < 0.25) else 1.0
    weights = None if w is None else np.array(w, dtype=float) * wscale
    loss = TableLoss(coordinate_weights=weights, coordinate_filters=filters if any(t is not None for t in f) or rng.random() < 0.5 else None)
    sim_arr = np.stack([np.stack([series_of(sim[m][i]) for i in range(D)], axis=1) for m in range(E)])   # (E, N, D)
    real_arr = np.stack([series_of(real[i]) for i in range(D)], axis=1)                                  # (N, D)
    if typed:
        sim_arr, real_arr = sim_arr.astype(np.int64), real_arr.astype(np.int64)
    ks, kr = sim_arr.copy(), real_arr.copy()
    st0 = ckpt.h(ckpt.deep(loss.__dict__))
    with quiet():
        val = loss.compute_loss(sim_arr, real_arr)
    ftab = [list(range(V)) if t is None else list(t) for t in f]
    if w is None and not any(t is not None for t in f) and loss.coordinate_filters is None:
        d2 = D + 1 if D < 4 else D - 1
        s2 = np.stack([np.stack([series_of(0) for _ in range(d2)], axis=1) for _ in range(E)])
        r2 = np.stack([series_of(0) for _ in range(d2)], axis=1)
        try:
            with quiet():
                a = float(loss.compute_loss(s2, r2))
                b = float(TableLoss().compute_loss(s2, r2))
            reused_ok = abs(a - b) <= 1e-12
        except Exception:  # noqa: BLE001
            reused_ok = False
        calls.clear()
        with quiet():
            val2 = loss.compute_loss(sim_arr, real_arr)
        reused_ok = reused_ok and float(val2) == float(val)
    else:
        reused_ok = True
    wi = [1] * D if w is None else list(w)
    scaled = float(val) / wscale * (D if w is None else 1)
    li = int(round(scaled))
    return {"e": "table", "D": D, "E": E, "w": wi, "f": ftab, "sim": [list(s) for s in sim], "real": list(real), "ktab": ktab,
            "loss": li if abs(scaled - li) < 1e-9 else -999999, "calls": calls,
            "inputsame": bool(np.array_equal(ks, sim_arr) and np.array_equal(kr, real_arr)),
            "statesame": st0 == ckpt.h(ckpt.deep(loss.__dict__)), "wdefault": w is None, "reusedok": reused_ok, "typed": typed, "wscale": wscale}


def table_traces(tier: str, rng: random.Random) -> list[list[dict]]:
    traces = []
    n = 600 if tier == "quick" else 8000
    for _ in range(n):
        D, E, V = rng.choice([1, 2, 2, 3, 4]), rng.choice([1, 2, 3]), rng.choice([2, 3])  # noqa: N806
        if D == 3:
            D = rng.choice([2, 4])  # noqa: N806   (default weights 1/D stay exact for D in {1, 2, 4})
        keys = [list(m) + [r] for m in itertools.product(range(V), repeat=E) for r in range(V)]
        ktab = [k + [rng.randint(0, 5)] for k in keys]            # an arbitrary user-defined single-coordinate loss
        w = None if rng.random() < 0.2 else [rng.choice([0, 1, 2, 3]) for _ in range(D)]
        f = [None if rng.random() < 0.3 else [rng.randrange(V) for _ in range(V)] for _ in range(D)]
        sim = [[rng.randrange(V) for _ in range(D)] for _ in range(E)]
        real = [rng.randrange(V) for _ in range(D)]
        ev = table_case(D, E, V, w, f, sim, real, ktab, rng)
        traces.append([ev, {"e": "rel", "kind": "fresh-object:table", "ok": ev["reusedok"]}])
    return traces


# ---- built-in losses ---------------------------------------------------------------------------------
def builtin_losses(D: int, rng: random.Random):  # noqa: N803
    from black_it.loss_functions.fourier import FourierLoss, gaussian_low_pass_filter, ideal_low_pass_filter
    from black_it.loss_functions.gsl_div import GslDivLoss
    from black_it.loss_functions.likelihood import LikelihoodLoss
    from black_it.loss_functions.minkowski import MinkowskiLoss
    from black_it.loss_functions.msm import MethodOfMomentsLoss

    def w():
        return np.array([rng.choice([0.5, 1.0, 2.0, 0.25]) for _ in range(D)])
    p, nbv = rng.choice([1, 2, 3]), rng.choice([None, 5])          # options are fixed per trace: every object built below is the same loss
    # (name, constructor, non-negative, zero at equality, evaluated through BaseLoss.compute_loss)
    return [
        ("minkowski", lambda cw=None: MinkowskiLoss(p=p, coordinate_weights=cw), True, True, True),
        ("msm-identity", lambda cw=None: MethodOfMomentsLoss(covariance_mat="identity", coordinate_weights=cw), True, True, True),
        ("msm-invvar", lambda cw=None: MethodOfMomentsLoss(covariance_mat="inverse_variance", coordinate_weights=cw), True, False, True),
        ("msm-standardise", lambda cw=None: MethodOfMomentsLoss(covariance_mat="identity", standardise_moments=True, coordinate_weights=cw), True, False, True),
        ("fourier-ideal", lambda cw=None: FourierLoss(frequency_filter=ideal_low_pass_filter, f=0.8, coordinate_weights=cw), True, True, True),
        ("fourier-gauss", lambda cw=None: FourierLoss(frequency_filter=gaussian_low_pass_filter, f=0.6, coordinate_weights=cw), True, True, True),
        # user-supplied plug-ins that return (a view of) their argument: whatever the loss does to their result must not reach the data
        ("msm-identity-calculator", lambda cw=None: MethodOfMomentsLoss(covariance_mat="identity", moment_calculator=_ident, coordinate_weights=cw), True, True, True),
        ("msm-view-calculator-standardised", lambda cw=None: MethodOfMomentsLoss(covariance_mat="identity", moment_calculator=_head, standardise_moments=True, coordinate_weights=cw), True, False, True),
        ("msm-identity-filters", lambda cw=None: MethodOfMomentsLoss(covariance_mat="identity", coordinate_filters=[_ident] * D, coordinate_weights=cw), True, True, True),
        ("fourier-identity-filters", lambda cw=None: FourierLoss(frequency_filter=gaussian_low_pass_filter, f=0.6, coordinate_filters=[_ident] * D, coordinate_weights=cw), True, True, True),
        ("gsl", lambda cw=None: GslDivLoss(nb_values=nbv, coordinate_weights=cw), False, False, True),
        # LikelihoodLoss overrides compute_loss (a joint D-dimensional kernel density; it ignores the weights with a warning): the
        # weighted-sum clause is about losses evaluated through the base-class fold and is not checked for it
        ("likelihood", lambda cw=None: LikelihoodLoss(), False, False, False),
    ], w


def _ident(x):
    return x


def _head(x):
    return x[:6]


def close(a, b, rtol=1e-10) -> bool:
    if np.isnan(a) or np.isnan(b):
        return bool(np.isnan(a) and np.isnan(b))
    return bool(abs(a - b) <= rtol * max(1.0, abs(a), abs(b)))


def builtin_trace(rng: random.Random) -> list[dict]:
    D = rng.choice([1, 2, 3])  # noqa: N806
    E = rng.choice([1, 2, 3, 4])  # noqa: N806
    n = rng.choice([40, 64, 100])
    g = np.random.default_rng(rng.randrange(2**31))
    real = g.standard_normal((n, D)).cumsum(axis=0) * 0.1 + g.standard_normal((n, D))
    sims = [g.standard_normal((E, n, D)) + 0.3 * k for k in range(3)]
    fam, wgen = builtin_losses(D, rng)
    name, mk, nonneg, zero_eq, folded = rng.choice(fam)
    ev = []
    with quiet():
        cw = wgen() if rng.random() < 0.6 else None
        loss = mk(cw)

        def evaluate(sim, real_=real):
            a, b = sim.copy(), real_.copy()
            st0 = ckpt.h(ckpt.deep(loss.__dict__))
            v = float(loss.compute_loss(sim, real_))
            e = {"e": "eval", "inp": ckpt.h(ckpt._b([a, b])), "res": ckpt.h(ckpt._b(v)), "inputsame": bool(np.array_equal(a, sim) and np.array_equal(b, real_)),  # noqa: SLF001
                 "statesame": st0 == ckpt.h(ckpt.deep(loss.__dict__)), "nonneg": bool(v >= 0 or np.isnan(v)), "needsnonneg": nonneg, "name": name}
            return v, e
        # a sequence of evaluations on the same object: A, B, A again, C, B again - the result depends on the arguments only
        vals = {}
        for k in (0, 1, 0, 2, 1):
            v, e = evaluate(sims[k])
            vals[k] = v
            ev.append(e)
        # the same object on data with another number of coordinates (and back): equal to what a fresh object returns
        if cw is None:
            for d2 in [x for x in (1, 2, 3) if x != D][:2]:
                real2 = g.standard_normal((n, d2))
                sim2 = g.standard_normal((E, n, d2))
                try:
                    reused = ("ok", float(loss.compute_loss(sim2, real2)))
                except Exception as e:  # noqa: BLE001
                    reused = (type(e).__name__, 0.0)
                try:
                    fresh = ("ok", float(mk(None).compute_loss(sim2, real2)))
                except Exception as e:  # noqa: BLE001
                    fresh = (type(e).__name__, 0.0)
                ev.append({"e": "rel", "kind": f"fresh-object:{name}", "ok": reused[0] == fresh[0] and close(reused[1], fresh[1], 1e-12)})
            v, e = evaluate(sims[0])
            ev.append(e)
        # the same object on series of another length (and back): equal to what a fresh object returns
        for n2 in (n // 2, n * 2):
            real3 = g.standard_normal((n2, D)).cumsum(axis=0) * 0.1 + g.standard_normal((n2, D))
            sim3 = g.standard_normal((E, n2, D))
            try:
                reused = ("ok", float(loss.compute_loss(sim3, real3)))
            except Exception as e:  # noqa: BLE001
                reused = (type(e).__name__, 0.0)
            try:
                fresh = ("ok", float(mk(cw).compute_loss(sim3, real3)))
            except Exception as e:  # noqa: BLE001
                fresh = (type(e).__name__, 0.0)
            ev.append({"e": "rel", "kind": f"fresh-object-other-length:{name}", "ok": reused[0] == fresh[0] and close(reused[1], fresh[1], 1e-12)})
        v, e = evaluate(sims[0])
        ev.append(e)
        # reordering the ensemble members changes nothing
        perm = list(range(E))
        rng.shuffle(perm)
        vp, e = evaluate(sims[0][perm])
        ev.append(e)
        ev.append({"e": "rel", "kind": f"ensemble-permutation:{name}", "ok": close(vp, vals[0])})
        # weight linearity, zero weight, coordinate permutation (through the common base class)
        wts = cw if cw is not None else np.ones(D) / D
        if not folded:
            return ev
        units = []
        for j in range(D):
            u = np.zeros(D)
            u[j] = 1.0
            units.append(float(mk(u).compute_loss(sims[0], real)))
        ev.append({"e": "rel", "kind": f"weight-linear:{name}", "ok": close(vals[0], float(np.dot(wts, units)), 1e-9)})
        if D >= 2:
            wz = np.array(wts, dtype=float)
            wz[0] = 0.0
            vz = float(mk(wz).compute_loss(sims[0], real))
            ev.append({"e": "rel", "kind": f"zero-weight:{name}", "ok": close(vz, float(np.dot(wz[1:], units[1:])), 1e-9)})
            p = list(range(D))
            rng.shuffle(p)
            vperm = float(mk(np.array(wts)[p]).compute_loss(sims[0][:, :, p], real[:, p]))
            ev.append({"e": "rel", "kind": f"coordinate-permutation:{name}", "ok": close(vperm, vals[0], 1e-9)})
        if zero_eq:
            e2 = rng.choice([1, 2, 4])
            same = np.stack([real] * e2)
            vz, e = evaluate(same)
            ev.append(e)
            ev.append({"e": "rel", "kind": f"zero-at-equality:{name}", "ok": bool(abs(vz) <= 1e-9 * (1 + float(np.linalg.norm(real))))})
    return ev


def filter_trace(rng: random.Random) -> list[dict]:
    """the coordinate filters shipped with the library, plugged into a loss: data with zeros / negative values included, the arrays
    handed to compute_loss come back bit-identical (a filter works on its own copy)"""
    from black_it.loss_functions.msm import MethodOfMomentsLoss
    from black_it.utils import time_series as ts

    g = np.random.default_rng(rng.randrange(2**31))
    n, E = rng.choice([24, 40]), rng.choice([1, 2, 3])  # noqa: N806
    ev = []
    for fname in ("hp_cycle_lamb1600_filter", "log_and_hp_filter", "diff_log_demean_filter"):
        f = getattr(ts, fname, None)
        if f is None:
            continue
        sim = np.abs(g.standard_normal((E, n, 2))) + 0.5
        real = np.abs(g.standard_normal((n, 2))) + 0.5
        kind = rng.choice(["positive", "zeros", "negative"])
        if kind != "positive":
            for _ in range(3):
                sim[rng.randrange(E), rng.randrange(n), 0] = 0.0 if kind == "zeros" else -1.25
        a, b = sim.copy(), real.copy()
        try:
            with quiet(), np.errstate(all="ignore"):
                MethodOfMomentsLoss(coordinate_filters=[f, None]).compute_loss(sim, real)
        except Exception:  # noqa: BLE001
            pass        # a filter may refuse non-positive data; it may not rewrite it
        ev.append({"e": "rel", "kind": f"filter-leaves-input-intact:{fname}:{kind}",
                   "ok": bool(np.array_equal(a, sim, equal_nan=True) and np.array_equal(b, real, equal_nan=True))})
    return ev


def badlen_trace(rng: random.Random) -> list[dict]:
    from black_it.loss_functions.minkowski import MinkowskiLoss
    from black_it.loss_functions.msm import MethodOfMomentsLoss

    D = rng.choice([1, 2, 3])  # noqa: N806
    sim, real = np.zeros((2, 10, D)), np.zeros((10, D))
    ev = []
    for what, kw in (("weights+1", {"coordinate_weights": np.ones(D + 1)}), ("weights-1", {"coordinate_weights": np.ones(max(D - 1, 0))}),
                     ("filters+1", {"coordinate_filters": [None] * (D + 1)}), ("filters-1", {"coordinate_filters": [None] * max(D - 1, 0)})):
        for cls in (MinkowskiLoss, MethodOfMomentsLoss):
            if cls is MinkowskiLoss and "coordinate_filters" in kw:
                continue                         # (its constructor takes weights only)
            try:
                with quiet():
                    cls(**kw).compute_loss(sim, real)
                raised = "none"
            except ValueError:
                raised = "ValueError"
            except Exception as e:  # noqa: BLE001
                raised = type(e).__name__
            ev.append({"e": "badlen", "what": f"{cls.__name__}:{what}", "raised": raised})
    return ev


def run(tier: str) -> int:
    chk = Check("C08", tier)
    rng = random.Random(800 + chk.seed)
    for cfg, note in (("MC_C08.cfg", "all single-member kernels over two symbols: the step machine is the fold; linearity, zero weight, coordinate swap, repeatability"),
                      ("MC_C08_e2.cfg", "two members, a family of kernels (symmetric and not)")):
        r = tlc.model_check("MC_LossInterface", cfg, workers=16, deadlock=False, timeout=900)
        if not r["ok"]:
            raise tlc.MachineryError(f"{cfg} violates {r['violated']}")
        chk.add_mc(r, note)
    chk.add_mc(tlc.expect_counterexample("MC_LossInterface", "MC_C08_mut.cfg", "MachineIsFold", workers=8, deadlock=False),
               "non-vacuity: filter also applied to the real series")
    traces = table_traces(tier, rng)
    n_tab = len(traces)
    for _ in range(120 if tier == "quick" else 1500):
        traces.append(builtin_trace(rng))
    for _ in range(4):
        traces.append(badlen_trace(rng))
    for _ in range(6 if tier == "quick" else 60):
        traces.append(filter_trace(rng))
    res = tlc.validate_parallel("LossInterfaceTrace", "LossInterfaceTrace.cfg",
                                [[{k: v for k, v in e.items() if k not in ("name", "wdefault", "reusedok")} for e in t] for t in traces], parts=12)
    chk.add_validation(res)
    chk.evaluations = sum(len(t) for t in traces)
    chk.extra.update({"table_driven_cases": n_tab, "builtin_sequences": len(traces) - n_tab - 4 - (6 if tier == "quick" else 60),
                      "distinct_nontrivial": len({repr(t)[:400] for t in traces})})
    for t in traces[:1] + traces[n_tab:n_tab + 1] + traces[-1:]:
        chk.sample(t[:6])
    for tid, why in res["rejected"].items():
        e = traces[tid - 1][why["at"] - 1]
        w = why["why"].strip('"')
        key = f"{e['e']}:{w}" + (f":{e.get('name')}" if e["e"] == "eval" else "") + (f":{e.get('what')}" if e["e"] == "badlen" else "")
        chk.violation(key, f"{key} at event {why['at']}: {({k: v for k, v in e.items() if k != 'ktab'})}", {"trace": traces[tid - 1], "tlc": why})
    return chk.finish("table-driven BaseLoss subclasses (arbitrary single-coordinate kernels as random tables, 1-4 coordinates, 1-3 members, integer "
                      "weights incl. zero and default, per-coordinate filters as value maps incl. None): value, what each coordinate received, "
                      "input and object integrity validated by TLC; the five built-in losses (8 configurations): sequences A,B,A,C,B on one "
                      "object (results keyed by input hash), ensemble permutation, weight linearity, zero weight, coordinate permutation "
                      "(1e-9..1e-10 relative), non-negativity, zero at equality (E in {1,2,4}); wrong-length weights/filters")


def replay(rep: dict) -> int:
    chk = Check("C08", "quick")
    rng = random.Random(1)
    t = rep["trace"]
    if t and t[0]["e"] == "table":
        e = t[0]
        V = max(max(r[:-1]) for r in e["ktab"]) + 1  # noqa: N806
        f = [None if x == list(range(V)) else x for x in e["f"]]
        new = [table_case(e["D"], e["E"], V, None if e.get("wdefault") else e["w"], f, e["sim"], e["real"], e["ktab"], rng, typed=e.get("typed", False), wscale=e.get("wscale", 1.0))]
    elif t and t[0]["e"] == "badlen":
        new = badlen_trace(rng)
    else:
        new = builtin_trace(rng)
    res = tlc.validate("LossInterfaceTrace", "LossInterfaceTrace.cfg", {"traces": [[{k: v for k, v in e.items() if k not in ("name", "wdefault", "typed", "wscale")} for e in new]]})
    chk.add_validation(res)
    for _tid, why in res["rejected"].items():
        chk.violation("replay", why["why"], {"trace": new})
    return chk.finish("replay")
