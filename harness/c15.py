"""C15 - search-space specifications are validated and discretised as documented (SearchSpace.tla / SearchSpaceTrace.tla)."""
from __future__ import annotations

import itertools
import random
from fractions import Fraction

import numpy as np

from . import tlc
from .common import Check, quiet

ATTRS = {
    "BoundsNotOfSizeTwoError": ["count_bounds_subarrays"],
    "BoundsOfDifferentLengthError": ["lower_bounds_length", "upper_bounds_length"],
    "BadPrecisionLengthError": ["precisions_length", "bounds_length"],
    "SameLowerAndUpperBoundError": ["param_index", "bound_value"],
    "LowerBoundGreaterThanUpperBoundError": ["param_index", "lower_bound", "upper_bound"],
    "PrecisionZeroError": ["param_index"],
    "PrecisionGreaterThanBoundsRangeError": ["param_index", "lower_bound", "upper_bound", "precision"],
}
LENGTH_ATTRS = {"count_bounds_subarrays", "lower_bounds_length", "upper_bounds_length", "precisions_length", "bounds_length", "param_index"}


def call(nb, lo, up, pr, scale: float, form: str, rtol: float = 0.0, floats=None) -> dict:
    """one SearchSpace(...) call; values are integer units of `scale` - or (floats given) arbitrary doubles for which the integers are
    stand-ins with the same order relations and the same number of grid steps"""
    from black_it import search_space as ss

    # on scale 1 with form "int*" the raw Python integers are passed (users write bounds like [0, 10] with precision 1)
    as_int = form.startswith("int")
    form = form[3:] if as_int else form
    f = (lambda u: int(u)) if as_int and scale == 1.0 else (lambda u: float(u) * scale)  # noqa: E731
    back = {}
    for u in set(lo) | set(up) | set(pr):
        back[f(u)] = u
    flo, fup, fpr = [f(x) for x in lo], [f(x) for x in up], [f(x) for x in pr]
    if floats is not None:
        flo, fup, fpr = (list(x) for x in floats)
        back = {}
        for fs, us in ((flo, lo), (fup, up), (fpr, pr)):
            for x, u in zip(fs, us):
                back[x] = u
    bounds = [flo, fup][:nb] if nb <= 2 else [flo, fup, list(flo)]
    if form == "array" and nb == 2 and len(flo) == len(fup):
        bounds = np.array(bounds, dtype=int if as_int and scale == 1.0 else float).reshape(2, len(flo))
        prec = np.array(fpr, dtype=int if as_int and scale == 1.0 else float)
    else:
        prec = fpr
    ev = {"e": "case", "nb": nb, "lo": list(lo), "up": list(up), "pr": list(pr), "err": "none", "a": 0, "b": 0, "c": 0, "d": 0,
          "lens": [], "firsts": [], "lasts": [], "even": True, "sizeok": True, "scale": scale, "form": form,
          "absmax": max([abs(float(x)) for x in flo + fup] + [0.0]), "prmin": min([abs(float(x)) for x in fpr] + [float("inf")]),
          "floats": [flo, fup, fpr] if floats is not None else None}
    try:
        with quiet():
            s = ss.SearchSpace(bounds, prec, verbose=False)
    except ss.SearchSpaceError as e:
        name = type(e).__name__
        ev["err"] = name
        vals = []
        for at in ATTRS.get(name, []):
            v = getattr(e, at, None)
            if at in LENGTH_ATTRS:
                vals.append(int(v) if v is not None else -99)
            else:
                vals.append(back.get(float(v), -98) if v is not None else -99)
        vals += [0] * (4 - len(vals))
        ev["a"], ev["b"], ev["c"], ev["d"] = vals[:4]
        if not isinstance(e, ValueError):
            ev["err"] = name + "(not a ValueError)"
        return ev
    except Exception as e:  # noqa: BLE001
        ev["err"] = "other:" + type(e).__name__
        return ev
    size = 1
    for j, g in enumerate(s.param_grid):
        g = np.asarray(g, dtype=float)
        ev["lens"].append(int(len(g)))
        size *= len(g)
        if len(g) == 0:
            ev["firsts"].append(-97)
            ev["lasts"].append(-97)
            continue
        # elements against lower + k*precision: exact on dyadic scales, 1e-9-relative otherwise
        want = np.array([float(Fraction(flo[j]) + k * Fraction(fpr[j])) for k in range(len(g))])
        # np.arange derives its step from the first two elements, so element k carries an error of up to k ulp(lower): the
        # tolerance is relative to the magnitude of the bounds, not of the element (which may be close to zero)
        tol = rtol * max(1.0, abs(flo[j]), abs(fup[j])) if rtol else 0.0
        if not np.all(np.abs(g - want) <= tol):
            ev["even"] = False
        ev["firsts"].append(lo[j] if abs(g[0] - flo[j]) <= (rtol * max(1.0, abs(flo[j])) if rtol else 0.0) else -96)
        k = len(g) - 1
        ev["lasts"].append(lo[j] + k * pr[j])
    ev["sizeok"] = bool(s.space_size == size and s.dims == len(lo))
    return ev


def lattice_inputs(vals, maxd: int):
    pos = [v for v in vals if v >= 0]
    for nb in (1, 2, 3):
        for nl in range(maxd + 1):
            for nu in range(maxd + 1):
                for npr in range(maxd + 1):
                    for lo in itertools.product(vals, repeat=nl):
                        for up in itertools.product(vals, repeat=nu):
                            for pr in itertools.product(pos, repeat=npr):
                                yield nb, lo, up, pr


def run(tier: str) -> int:
    chk = Check("C15", tier)
    rng = random.Random(1500 + chk.seed)
    r = tlc.model_check("MC_SearchSpace", "MC_C15.cfg" if tier == "quick" else "MC_C15_thorough.cfg", workers=16, deadlock=False, timeout=900)
    if not r["ok"]:
        raise tlc.MachineryError(f"SearchSpace design violates {r['violated']}")
    chk.add_mc(r, "the step-by-step model of _check_bounds equals the documented decision table on the whole lattice; GridLaw")
    chk.add_mc(tlc.expect_counterexample("MC_SearchSpace", "MC_C15_mut.cfg", "MachineMatchesTable", workers=4, deadlock=False),
               "non-vacuity: precision checks before the bound checks")
    inv = tlc.model_check("MC_SearchSpace", "MC_C15_inv.cfg", workers=4, deadlock=False)
    if not inv["ok"]:
        raise tlc.MachineryError("harmless reordering (inverted before equal) rejected by the table")
    chk.add_mc(inv, "a harmless reordering (inverted before equal) satisfies the table: no alarm on equivalent code")
    events = []
    # (a) the value lattice, exhaustively for <= 2 parameters, on exact (dyadic) scales, list and array forms
    vals = [-1, 0, 1, 2] if tier == "quick" else [-2, -1, 0, 1, 2, 5]
    scales = [1.0, 2.0**-10, 2.0**13]
    for n, (nb, lo, up, pr) in enumerate(lattice_inputs(vals, 2)):
        events.append(call(nb, lo, up, pr, scales[n % 3], ("int" if n % 5 == 0 else "") + ("array" if n % 2 else "list")))
    n_lat = len(events)
    # (b) three parameters: seeded sample of the lattice
    v6 = [-2, -1, 0, 1, 2, 5]
    for _ in range(3000 if tier == "quick" else 60000):
        nb = rng.choice([2, 2, 2, 1, 3])
        nl, nu, npr = (rng.choice([3, 3, 3, 2]) for _ in range(3))
        events.append(call(nb, [rng.choice(v6) for _ in range(nl)], [rng.choice(v6) for _ in range(nu)],
                           [rng.choice([0, 1, 2, 5]) for _ in range(npr)], rng.choice(scales), rng.choice(["list", "array"])))
    # (c) well-formed spaces of any sign and scale, range/precision up to 1e5, decimal scales (1e-9 relative tolerance on elements)
    for _ in range(400 if tier == "quick" else 6000):
        d = rng.randint(1, 4)
        lo, up, pr = [], [], []
        for _j in range(d):
            p = rng.choice([1, 1, 2, 3, 7, 25])
            steps = rng.choice([1, 2, 3, 10, 99, 1000, 10**4, 10**5 // p])
            rem = rng.choice([0, 0, rng.randint(0, p - 1)])
            l0 = rng.choice([0, -1, 1, -5000, 123, rng.randint(-10**4, 10**4)])
            lo.append(l0)
            up.append(l0 + steps * p + rem)
            pr.append(p)
        scale = rng.choice([1.0, 0.1, 0.01, 1e-3, 0.3, 7.0, 1e4, 0.25, 1e-5])
        if any(u - l0 < 2 * p for l0, u, p in zip(lo, up, pr)):
            scale = rng.choice([1.0, 0.25, 2.0**-12, 1024.0])   # range ~ precision: only exact scales (float comparison of equal decimals)
        events.append(call(2, lo, up, pr, scale, rng.choice(["list", "array"]), rtol=1e-9))
    # (c') many parameters: the size of the space is a product far beyond 64 bits
    for _ in range(25 if tier == "quick" else 300):
        d = rng.randint(5, 14)
        lo = [rng.choice([0, -1, 1, -500, 123]) for _ in range(d)]
        pr = [rng.choice([1, 1, 2, 3]) for _ in range(d)]
        steps = [rng.choice([10, 99, 100, 1000, 10**4]) for _ in range(d)]
        up = [lo[j] + steps[j] * pr[j] for j in range(d)]
        events.append(call(2, lo, up, pr, rng.choice([1.0, 0.1, 0.01, 0.25]), rng.choice(["list", "array"]), rtol=1e-9))
    # (c'') precisions within one unit in the last place of the range (the range itself being exact: bounds of one sign within a
    #       factor of two): just above is an error, equal or just below gives the two-point grid
    for _ in range(150 if tier == "quick" else 3000):
        sgn = rng.choice([1.0, -1.0])
        mag = rng.choice([1.0, 1e-3, 0.7, 1e16, 3.3e5, 2.0**-20])
        a = sgn * mag * (1.0 + rng.randrange(0, 64) / 64.0)
        r = abs(a) * rng.choice([0.5, 0.25, 0.1, 0.3, 1 / 3, 0.0123]) * rng.random()
        b = a + r
        if not (Fraction(b) - Fraction(a) > 0 and float(Fraction(b) - Fraction(a)) == b - a and Fraction(b - a) == Fraction(b) - Fraction(a)):
            continue
        if b - a < 1e-3 * max(1.0, 0.0):
            continue
        rngf = b - a
        kind = rng.choice(["above", "equal", "below"])
        pf = float(np.nextafter(rngf, np.inf)) if kind == "above" else rngf if kind == "equal" else float(np.nextafter(rngf, 0.0))
        stand = {"above": ([0], [2], [3]), "equal": ([0], [2], [2]), "below": ([0], [3], [2])}[kind]
        events.append(call(2, *stand, 1.0, rng.choice(["list", "array"]), rtol=1e-9, floats=([a], [b], [pf])))
    # (c4) bounds of large magnitude whose range is tiny relative to them (exactly representable): a well-formed five-point grid,
    #      inverted bounds and a precision above the range are told apart as for any other bounds
    for _ in range(40 if tier == "quick" else 600):
        a = float(2 ** rng.randint(18, 26)) * rng.choice([1.0, -1.0, 1.5])
        w = 2.0 ** -rng.randint(8, 12)                 # range / |a| between 1e-8 and 1e-12
        b = a + w
        if b - a != w:
            continue
        kind = rng.choice(["ok", "ok", "inverted", "toolarge"])
        if kind == "ok":
            events.append(call(2, [0], [4], [1], 1.0, rng.choice(["list", "array"]), rtol=1e-9, floats=([a], [b], [w / 4])))
        elif kind == "inverted":
            events.append(call(2, [4], [0], [1], 1.0, "list", rtol=1e-9, floats=([b], [a], [w / 4])))
        else:
            events.append(call(2, [0], [4], [5], 1.0, "list", rtol=1e-9, floats=([a], [b], [w * 1.25])))
    # (d) the two ends of the scale, where the fixed 1e-7 end-point tolerance matters: tiny precisions and huge bounds
    for _ in range(40 if tier == "quick" else 400):
        steps = rng.choice([10, 1000, 10**5])
        if rng.random() < 0.5:
            events.append(call(2, [0], [steps], [1], rng.choice([1e-8, 1e-9, 2.0**-30, 1e-10]), "list", rtol=1e-9))
        else:
            base = rng.choice([10**5, 4 * 10**5])
            events.append(call(2, [base], [base + steps * 25], [25], 1e4, "list", rtol=1e-9))
    traces = [[e] for e in events]
    res = tlc.validate_parallel("SearchSpaceTrace", "SearchSpaceTrace.cfg",
                                [[{k: v for k, v in e.items() if k not in ("scale", "form", "absmax", "prmin", "floats")} for e in t] for t in traces], parts=12)
    chk.add_validation(res)
    chk.evaluations = len(events)
    chk.extra.update({"lattice_inputs_exhaustive_up_to_2_parameters": n_lat,
                      "distinct_nontrivial": len({repr((e["nb"], e["lo"], e["up"], e["pr"])) for e in events}),
                      "outcome_classes": {k: sum(1 for e in events if e["err"] == k) for k in sorted({e["err"] for e in events})}})
    for e in events[:2] + events[n_lat:n_lat + 1] + events[-2:]:
        chk.sample(e)
    for tid, why in res["rejected"].items():
        e = events[tid - 1]
        kind = "grid" if '"grid"' in why["why"] else "size" if '"size"' in why["why"] else "validation"
        key = f"{kind}:{e['err']}"
        if kind == "grid" and e["prmin"] < 1e-7:
            key += ":precision<1e-7"
        elif kind == "grid" and e["absmax"] >= 2.0**30:
            key += ":upper>=2^30"
        chk.violation(key, f"SearchSpace({e['form']}, scale {e['scale']}): {why['why']}", {"event": e, "tlc": why})
    return chk.finish("the whole value lattice ({-1,0,1,2} quick / {-2,-1,0,1,2,5} thorough; bounds with 1/2/3 sub-arrays, unequal lengths, "
                      "wrong precision length) exhaustively for <= 2 parameters in list and array form on exact scales, seeded samples for 3 "
                      "parameters, and random well-formed spaces of 1-4 parameters with range/precision up to 1e5 on decimal scales 1e-5..1e4",
                      exhaustive=True)


def replay(rep: dict) -> int:
    chk = Check("C15", "quick")
    e = rep["event"]
    ev = call(e["nb"], e["lo"], e["up"], e["pr"], e["scale"], e["form"], rtol=1e-9, floats=e.get("floats"))
    res = tlc.validate("SearchSpaceTrace", "SearchSpaceTrace.cfg", {"traces": [[{k: v for k, v in ev.items() if k not in ("scale", "form", "absmax", "prmin", "floats")}]]})
    chk.add_validation(res)
    for _tid, why in res["rejected"].items():
        chk.violation("replay", why["why"], {"event": ev})
    return chk.finish("replay")
