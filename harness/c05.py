"""C05 - resuming from a checkpoint equals never having stopped.

design    : Calibration.tla, MC_C05: every composition of <= 4 (thorough 5) batches into calibrate() calls, each cut live or
            checkpoint/restore; ObservableIsRef; the design that re-seeds at every call is refuted.
conformance: (a) all TLC behaviours of Gen_C05 on the real Calibrator with scripted stateful samplers (cursor and generator position of
            every sampler, seed position of every model run, every stored row validated by TLC);
            (b) line-ups of built-in stateful samplers (Halton, R-sequence, PSO, CORS, surrogates, best batch), uninterrupted run vs every
            composition x boundary kinds: exact per-batch projections compared by TLC (Observable.tla).
"""
from __future__ import annotations

import itertools
import random

from . import calcfg, calcheck, tlc, twins
from .common import REPO, Check

STATEFUL_LINEUPS = [
    [["HaltonSampler", 2], ["RSequenceSampler", 2]],
    [["RandomUniformSampler", 3], ["ParticleSwarmSampler", 2], ["BestBatchSampler", 2]],
    [["HaltonSampler", 3], ["CORSSampler", 1]],
    [["RSequenceSampler", 2], ["RandomForestSampler", 2]],
    [["HaltonSampler", 2], ["XGBoostSampler", 2], ["ParticleSwarmSampler", 2]],
    [["RandomUniformSampler", 2], ["GaussianProcessSampler", 1], ["HaltonSampler", 1]],
    [["HaltonSampler", 2], ["BestBatchSampler", 2], ["RSequenceSampler", 1], ["XGBoostSampler", 1]],
]


def splits_for(n: int, rng: random.Random, limit: int | None):
    out = []
    for comp in twins.compositions(n):
        if len(comp) == 1:
            continue
        for kinds in itertools.product(["live", "restore"], repeat=len(comp) - 1):
            out.append([(c, k) for c, k in zip(comp, [*kinds, "end"])])
    if limit is not None and len(out) > limit:
        out = rng.sample(out, limit)
    return [[(n, "end")]] + out


def run(tier: str) -> int:
    chk = Check("C05", tier)
    rng = random.Random(500 + chk.seed)
    calcheck.design(chk, ["MC_C05", "MC_C05_mut"] + (["MC_C05_thorough"] if tier == "thorough" else []))
    # (a) scripted
    base = calcfg.config("Gen_C05")
    ops = calcheck.maximal(calcheck.tlc_scripts("Gen_C05"))
    chk.extra["tlc_behaviours_available"] = len(ops)
    pick = calcheck.sample_scripts(ops, 200 if tier == "quick" else len(ops), rng)
    scripts = [calcheck.to_script(o, base, seed=rng.randrange(1, 10**6)) for o in pick]
    if tier == "thorough":
        b3 = {**base, "lineup": calcfg.LU["ABA"]}
        scripts += [calcheck.to_script(o, b3, seed=rng.randrange(1, 10**6)) for o in pick[:400]]
    traces = calcheck.execute(scripts)
    calcheck.validate(chk, traces, relevant={"C05", "C04", "C01", "C02"})
    # (b) built-in stateful samplers
    jobs = []
    n_cfg = 6 if tier == "quick" else 28
    for i in range(n_cfg):
        lu = STATEFUL_LINEUPS[i % len(STATEFUL_LINEUPS)]
        cfg = twins.random_config(rng, rl=False)
        cfg["lineup"] = [list(x) for x in lu]
        n = rng.choice([3, 4]) if tier == "quick" else rng.choice([4, 5, 6, 8, 12])
        cfg["batches"] = n
        lim = 5 if tier == "quick" else (None if n <= 5 else 24)
        jobs.append((cfg, splits_for(n, rng, lim), str(REPO)))
    # long runs on fine grids for the cheap stateful samplers: a state lost (or de-aliased) by the restore may take several batches
    # to surface in the sampled parameters; one restore at every possible position
    cheap = [[["ParticleSwarmSampler", 2]], [["HaltonSampler", 2], ["ParticleSwarmSampler", 3]],
             [["RandomUniformSampler", 3], ["BestBatchSampler", 2], ["ParticleSwarmSampler", 2]],
             [["RSequenceSampler", 2], ["HaltonSampler", 1], ["BestBatchSampler", 2]]]
    for i in range(4 if tier == "quick" else 24):
        cfg = twins.random_config(rng, rl=False, dims=(12 if i % 4 == 1 else None))      # (one run in four on more than ten parameters)
        cfg["lineup"] = [list(x) for x in cheap[i % len(cheap)]]
        d = len(cfg["prec"])
        cfg["prec"] = [rng.choice([1e-4, 1e-5]) for _ in range(d)]
        cfg["E"], cfg["N"], cfg["loss"] = 1, 20, "MinkowskiLoss"
        n = 12 if tier == "quick" else rng.choice([12, 16, 20])
        cfg["batches"] = n
        cuts = [[(n, "end")]] + [[(k, "restore"), (n - k, "end")] for k in range(1, n)]
        if tier == "thorough":
            cuts += [[(k, "restore"), (1, "restore"), (n - k - 1, "end")] for k in range(1, n - 1)]
        jobs.append((cfg, cuts, str(REPO)))
    results = twins.pool_map(twins._c05_worker, jobs, procs=8)  # noqa: SLF001
    # the usual way of resuming: a NEW interpreter restores the checkpoint (nothing that lives in the old process survives)
    fjobs = []
    for i in range(3 if tier == "quick" else 14):
        cfg = twins.random_config(rng, rl=False, heavy=False)
        cfg["lineup"] = [list(x) for x in (cheap + STATEFUL_LINEUPS[:1] + STATEFUL_LINEUPS[4:5])[i % 6]]
        d = rng.choice([2, 3, 4])
        cfg["bounds"], cfg["prec"] = [[0.0] * d, [1.0] * d], [rng.choice([0.01, 0.001])] * d
        if i % 3 != 0:
            cfg["lineup"][0] = ["HaltonSampler", max(2, cfg["lineup"][0][1])]
        n = rng.choice([4, 5, 6])
        cfg["batches"] = n
        k = rng.randint(1, n - 1)
        fjobs.append((cfg, [[k, n - k]] + ([[1, 1, n - 2]] if tier == "thorough" and n > 3 else []), str(REPO)))
    results += twins.pool_map(twins._c05_fresh_worker, fjobs, procs=6)  # noqa: SLF001
    res = tlc.validate("Observable", "Observable.cfg", {"traces": [{"ev": r["ev"]} for r in results]})
    chk.add_validation(res)
    chk.evaluations = len(traces) + sum(len(r["splits"]) for r in results)
    chk.extra["builtin_configurations"] = len(results)
    chk.extra["builtin_split_executions"] = sum(len(r["splits"]) for r in results)
    chk.extra["distinct_nontrivial"] = len({repr(t["script"]["tlc_ops"]) for t in traces}) + sum(len(r["splits"]) for r in results)
    for r in results[:2]:
        chk.sample({"lineup": r["cfg"]["lineup"], "batches": r["cfg"]["batches"], "splits": r["splits"][:4]})
    for t in traces[:2]:
        chk.sample({"ops": t["script"]["tlc_ops"]})
    for tid, why in res["rejected"].items():
        r = results[tid - 1]
        ev = r["ev"][why["at"] - 1]
        variant = [e for e in r["ev"][:why["at"]] if e["e"] == "variant"][-1]["axes"]
        kinds = ("restore" if "r" in variant else "") + ("live" if "l" in variant else "")
        what = ev.get("what", "").split(":")[0] if ev["e"] == "crash" else "differs"
        samplers = "+".join(sorted({n for n, _ in r["cfg"]["lineup"]}))
        chk.violation(f"builtin:{kinds}:{what}:{samplers}",
                      f"split [{variant}] of {r['cfg']['batches']} batches ({samplers}): {why['why']} {ev.get('what', '')}",
                      {"cfg": r["cfg"], "splits": r["splits"], "variant": variant, "event": ev, "tlc": why})
    return chk.finish("all TLC behaviours of Gen_C05 (compositions of <= 4 batches x {live, checkpoint/restore} cuts) on scripted stateful "
                      "samplers, validated event by event; built-in stateful line-ups (Halton, R-sequence, PSO, CORS, RF, XGBoost, GP, "
                      "best batch): uninterrupted run vs compositions x boundary kinds (all for n <= 5 in thorough, seeded sample "
                      "otherwise), SHA-256 per-batch projections compared by TLC")


def replay(rep: dict) -> int:
    chk = Check("C05", "quick")
    if "script" in rep:
        traces = calcheck.execute([rep["script"]], procs=1)
        calcheck.validate(chk, traces, relevant=None)
    else:
        r = twins._c05_worker((rep["cfg"], rep["splits"], str(REPO)))  # noqa: SLF001
        res = tlc.validate("Observable", "Observable.cfg", {"traces": [{"ev": r["ev"]}]})
        chk.add_validation(res)
        for tid, why in res["rejected"].items():
            chk.violation("replay", why["why"], {"cfg": rep["cfg"], "splits": rep["splits"], "tlc": why})
    return chk.finish("replay")
