"""C02 - the recorded history is aligned, truthful and append-only (Calibration.tla / CalibrationTrace.tla)."""
from __future__ import annotations

import random

from . import calcfg, calcheck, tlc
from .common import Check

RELEVANT = {"C02"}


def run(tier: str) -> int:
    chk = Check("C02", tier)
    rng = random.Random(200 + chk.seed)
    calcheck.design(chk, ["MC_C02"] if tier == "quick" else ["MC_C02", "MC_C02_thorough"])
    base = calcfg.config("Gen_C02")
    ops = calcheck.maximal(calcheck.tlc_scripts("Gen_C02"))
    chk.extra["tlc_behaviours_available"] = len(ops)
    pick = calcheck.sample_scripts(ops, 220 if tier == "quick" else 2500, rng)
    scripts = [calcheck.to_script(o, base, seed=rng.randrange(1, 10**6), verbose=rng.random() < 0.3) for o in pick]
    base2 = calcfg.config("Gen_C02_sim")
    sim = calcheck.maximal(calcheck.tlc_scripts("Gen_C02_sim", simulate=(60 if tier == "quick" else 600, 160), seed=chk.seed))
    sim = calcheck.sample_scripts(sim, 60 if tier == "quick" else 800, rng)
    scripts += [calcheck.to_script(o, base2, seed=rng.randrange(1, 10**6)) for o in sim]
    scripts += calcheck.builtin_scripts(7 if tier == "quick" else 42, rng)
    # several workers, run times that depend on the parameters (rows complete out of order): the stored series must still be those
    # of their own vector - the content of every series is decoded and compared at the next idle event
    wide = {**base, "lineup": [{"cls": "A", "bs": 4}, {"cls": "B", "bs": 3}], "E": 2}
    for k in range(6 if tier == "quick" else 40):
        scripts.append(calcheck.to_script([["call", 2], ["call", 1]], wide, seed=2 * rng.randrange(1, 10**5), njobs=rng.choice([2, 4])))
    # every third run without a checkpoint folder: the loss carries value-changing coordinate filters (what the loss does to the
    # block it is handed must not reach the recorded series)
    for i, sc in enumerate(scripts):
        if i % 3 == 0 and not sc["cfg"].get("saving"):
            sc["cfg"]["filtered"] = True
    traces = calcheck.execute(scripts)
    chk.evaluations = len(traces)
    for t in traces[:3]:
        chk.sample({"ops": t["script"]["tlc_ops"], "events": len(t["ev"]), "first_events": t["ev"][:4]})
    calcheck.validate(chk, traces, relevant=RELEVANT)
    chk.extra["distinct_nontrivial"] = len({repr(t["script"]["tlc_ops"]) for t in traces if len(t["ev"]) > 6})
    return chk.finish("behaviours of GenCalibration.tla (exhaustive small configuration, seeded sample in quick; TLC -simulate walks "
                      "of a deeper one) replayed on the real Calibrator with scripted samplers/model/loss; every recorded trace "
                      "validated by TLC against CalibrationTrace.tla with all invariants evaluated in every state")


def replay(rep: dict) -> int:
    chk = Check("C02", "quick")
    traces = calcheck.execute([rep["script"]], procs=1)
    calcheck.validate(chk, traces, relevant=None)
    return chk.finish("replay of a stored script")
