"""Cooperative controller for the RL scheduler's two threads (C10).

No source hook: the synchronisation objects are supplied from the outside -
  * CalibrationEnv._in_queue/_out_queue are replaced by CtlQueue objects before RLScheduler is built,
  * `_stopped` is intercepted by a data descriptor on a harness subclass of RLScheduler,
  * the module attribute `threading` of rl_scheduler is replaced by a shim whose Thread is CtlThread.
Every participating thread parks before each synchronisation operation; the controller (main thread)
waits until every live thread is parked or finished and grants exactly one of them.  Blocking operations
(queue get on an empty queue, join of a live thread) are *not enabled*, so deadlock is a logical condition
(no enabled thread, not all finished), never a time-out.  Only one thread runs at a time, hence all
recorded events are totally ordered without any clock.
"""
from __future__ import annotations

import queue
import threading
from collections import deque

WATCHDOG = 30.0   # machinery failure guard only


class Aborted(BaseException):
    """raised inside parked threads when the controller gives up (deadlock found / watchdog)"""


class Controller:
    def __init__(self) -> None:
        self.cv = threading.Condition()
        self.st: dict[str, dict] = {}
        self.by_ident: dict[int, str] = {}
        self.events: list[dict] = []
        self.grants: list[tuple[str, str]] = []
        self.abort = False
        self.machinery_error: str | None = None
        self.ghost: dict = {"batch": 0, "cid": 0}

    # ---- called by participating threads -------------------------------------------------
    def current(self) -> str | None:
        return self.by_ident.get(threading.get_ident())

    def register(self, name: str) -> None:
        with self.cv:
            self.st[name] = {"parked": None, "enabled": None, "granted": False, "done": False}

    def bind(self, name: str) -> None:
        self.by_ident[threading.get_ident()] = name

    def sync(self, kind: str, enabled=None) -> None:
        name = self.current()
        if name is None:
            return
        with self.cv:
            s = self.st[name]
            s["parked"], s["enabled"], s["granted"] = kind, enabled, False
            self.cv.notify_all()
            while not s["granted"]:
                if self.abort:
                    s["parked"] = None
                    raise Aborted
                self.cv.wait()
            s["parked"] = None

    def finish(self, name: str) -> None:
        with self.cv:
            self.st[name]["done"] = True
            self.st[name]["parked"] = None
            self.cv.notify_all()

    def log(self, ev: dict) -> None:
        self.events.append(ev)

    # ---- called by the controller (main thread) --------------------------------------------
    def quiesce(self) -> bool:
        """wait until every registered thread is parked or done"""
        with self.cv:
            ok = self.cv.wait_for(lambda: all(s["done"] or s["parked"] is not None for s in self.st.values()), timeout=WATCHDOG)
            if not ok:
                self.machinery_error = "watchdog: a controlled thread neither parked nor finished"
            return ok

    def enabled(self) -> list[tuple[str, str]]:
        with self.cv:
            res = []
            for n, s in self.st.items():
                if not s["done"] and s["parked"] is not None and (s["enabled"] is None or s["enabled"]()):
                    res.append((n, s["parked"]))
            return res

    def all_done(self) -> bool:
        with self.cv:
            return all(s["done"] for s in self.st.values())

    def parked(self) -> dict[str, str]:
        with self.cv:
            return {n: s["parked"] for n, s in self.st.items() if not s["done"] and s["parked"] is not None}

    def grant(self, name: str) -> None:
        with self.cv:
            s = self.st[name]
            self.grants.append((name, s["parked"]))
            s["granted"] = True
            s["parked"] = None
            self.cv.notify_all()

    def abort_all(self) -> None:
        with self.cv:
            self.abort = True
            self.cv.notify_all()


CTL: Controller | None = None


class CtlQueue:
    """Queue whose put/get are synchronisation points; items carry ghost identities for the trace."""

    def __init__(self, name: str) -> None:
        self.name = name
        self.items: deque = deque()
        self.timeouts = 0

    def put(self, x, block=True, timeout=None):  # noqa: ARG002
        c = CTL
        if c is not None:
            c.sync(f"put:{self.name}")
        if self.name == "act":
            g = {"cid": c.ghost["cid"] if c else 0, "a": int(x)}
            if c:
                c.log({"e": "put", **g})
        else:
            if x is None:
                g = {"kind": "end"}
                if c:
                    c.log({"e": "end"})
            else:
                g = {"kind": "out", "batch": c.ghost["batch"] if c else 0, "best": _scaled(x[1])}
                if c:
                    ev = {"e": "out", "batch": g["batch"], "best": g["best"]}
                    if "bmin" in c.ghost:
                        ev["bmin"] = c.ghost["bmin"]          # (the minimum of the losses of the batch being scored)
                    c.log(ev)
        self.items.append((x, g))

    def get(self, block=True, timeout=None):
        c = CTL
        if c is not None:
            timed = (not block) or timeout is not None
            # a timed wait may end either way: whether the item or the timeout comes first is the scheduler's choice
            # (at most two timeouts in a row on one queue, so that a polling loop cannot starve the other thread)
            c.sync(f"get:{self.name}", enabled=lambda: len(self.items) > 0 or (timed and self.timeouts < 2))
            if not self.items:
                self.timeouts += 1
                c.log({"e": "timeout", "q": self.name})
                raise queue.Empty
            self.timeouts = 0
        elif not self.items:
            raise queue.Empty
        x, g = self.items.popleft()
        if c is not None:
            if self.name == "act":
                c.ghost["got"] = g
            else:
                c.ghost["rcv"] = g
                c.log({"e": "rcv", "kind": g["kind"], "batch": g.get("batch", -1)})
        return x

    def empty(self) -> bool:
        return not self.items

    def qsize(self) -> int:
        return len(self.items)

    def get_nowait(self):
        if not self.items:
            raise queue.Empty
        x, g = self.items.popleft()
        if CTL is not None:
            CTL.ghost["drained"] = CTL.ghost.get("drained", 0) + 1
        return x


def _scaled(v) -> int:
    f = float(v)
    i = int(round(f))
    return i if float(i) == f else -1


class CtlThread:
    """Stands for threading.Thread inside rl_scheduler: start/join are synchronisation points."""

    def __init__(self, target=None, args=(), kwargs=None, **_kw) -> None:
        self.target, self.args, self.kwargs = target, args, kwargs or {}
        self._t: threading.Thread | None = None
        self.error: BaseException | None = None

    def start(self) -> None:
        c = CTL
        c.sync("tstart")
        c.register("agent")
        c.log({"e": "tstart"})

        def body():
            c.bind("agent")
            try:
                if c.ghost.get("park_begin"):
                    c.sync("begin")         # the new thread's first instruction is a scheduling point of its own
                self.target(*self.args, **self.kwargs)
            except Aborted:
                pass
            except BaseException as e:  # noqa: BLE001
                self.error = e
                c.log({"e": "agent-crash", "what": repr(e)[:200]})
            finally:
                c.log({"e": "exit"})
                c.finish("agent")

        self._t = threading.Thread(target=body, daemon=True)
        self._t.start()
        if c.ghost.get("park_begin"):
            c.sync("started")               # ... and so is the parent's return from start(): either thread may run first

    def join(self, timeout=None) -> None:  # noqa: ARG002
        c = CTL
        c.sync("join", enabled=lambda: c.st["agent"]["done"])
        self._t.join()
        c.log({"e": "join"})

    def is_alive(self) -> bool:
        return self._t is not None and self._t.is_alive()


class _ThreadingShim:
    Thread = CtlThread

    def __getattr__(self, name):
        return getattr(threading, name)


def make_scheduler(samplers, agent, env, random_state=0):
    """the real RLScheduler, with controllable synchronisation objects injected"""
    from black_it.schedulers.rl import rl_scheduler as mod
    from black_it.schedulers.rl.rl_scheduler import RLScheduler

    class CtlRLScheduler(RLScheduler):
        @property
        def _stopped(self):
            c = CTL
            if c is not None and c.current() == "agent":
                c.sync("flagread")
            return self.__dict__.get("_v_stopped", True)

        @_stopped.setter
        def _stopped(self, v):
            c = CTL
            if c is not None and c.current() == "cal":
                c.sync("flagwrite")
                c.log({"e": "flag", "v": bool(v)})
            self.__dict__["_v_stopped"] = v

    env._out_queue = CtlQueue("act")   # noqa: SLF001   agent -> scheduler
    env._in_queue = CtlQueue("out")    # noqa: SLF001   scheduler -> agent
    mod.threading = _ThreadingShim()
    return CtlRLScheduler(samplers, agent=agent, env=env, random_state=random_state)


def restore_module() -> None:
    from black_it.schedulers.rl import rl_scheduler as mod

    mod.threading = threading
