"""C13 - quasi-random samplers emit the true Halton and R sequences, without gaps (QuasiRandom.tla / QuasiRandomTrace.tla)."""
from __future__ import annotations

import random
from decimal import Decimal, getcontext

import numpy as np

from . import tlc
from .common import Check, quiet

M30 = 2**30


def primes(n: int) -> list[int]:
    out, k = [], 2
    while len(out) < n:
        if all(k % p for p in out if p * p <= k):
            out.append(k)
        k += 1
    return out


def den_for(max_index: int, b: int) -> int:
    d = b
    while d <= max_index:
        d *= b
    return d


def nums_of(values, den: int) -> list[int]:
    out = []
    for x in values:
        y = float(x) * den
        r = round(y)
        out.append(int(r) if abs(y - r) < 1e-6 * max(1.0, abs(y)) ** 0 and abs(y - r) < 1e-5 else -1)
    return out


def vdc_events(bases, lo: int, hi: int, chunk: int = 1024) -> list[dict]:
    from black_it.samplers.halton import halton

    evs = []
    for b in bases:
        for first in range(lo, hi, chunk):
            n = min(chunk, hi - first)
            den = den_for(first + n, b)
            vals = halton(sample_size=n, bases=np.array([b]), n_start=first)[:, 0]
            evs.append({"e": "vdc", "b": b, "first": first, "den": den, "nums": nums_of(vals, den)})
    return evs


def primes_events() -> list[dict]:
    from black_it.samplers.halton import _CachedPrimesCalculator

    evs = []
    calc = _CachedPrimesCalculator()
    for k in [1, 5, 3, 60, 17, 40, 2, 59]:            # cache hits in any order
        evs.append({"e": "primes", "k": k, "ps": [int(x) for x in calc.get_n_primes(k)]})
    fresh = _CachedPrimesCalculator()
    evs.append({"e": "primes", "k": 60, "ps": [int(x) for x in fresh.get_n_primes(60)]})
    return evs


class Capture:
    """records what a sampler hands to digitize_data (the points before grid snapping)"""

    def __init__(self, module):
        self.module, self.raw = module, []

    def __enter__(self):
        self.orig = self.module.digitize_data

        def spy(data, grid):
            self.raw.append(np.array(data, dtype=float))
            return self.orig(data, grid)

        self.module.digitize_data = spy
        return self

    def __exit__(self, *a):
        self.module.digitize_data = self.orig


def halton_event(d: int, seed: int, sizes: list[int], reseed_at: int | None = None, seed2: int = 0) -> list[dict]:
    from black_it.samplers import halton as hmod
    from black_it.search_space import SearchSpace

    # the unit cube, or another box (dyadic bounds): the points are the sequence mapped affinely onto the bounds
    lo, up = [(0.0, 1.0), (0.0, 1.0), (-2.0, 6.0), (1.0, 3.0), (0.5, 0.75)][(seed + d) % 5]
    space = SearchSpace([[lo] * d, [up] * d], [0.5 * (up - lo)] * d, verbose=False)
    pr = primes(d)
    evs = []
    s = hmod.HaltonSampler(batch_size=1, random_state=seed, max_deduplication_passes=0)
    cur_seed, cur_sizes, raw = seed, [], []

    def unit(raws):
        out = []
        for r in raws:
            u = (np.asarray(r, dtype=float) - lo) / (up - lo)
            if (lo, up) != (0.0, 1.0) and u.size:
                u[:, 0] = np.round(u[:, 0] * 2.0**20) / 2.0**20      # base 2: exact dyadic values again (the start index is read off them)
            out.append(u)
        return out
    with Capture(hmod) as cap:
        for i, n in enumerate(sizes):
            if reseed_at is not None and i == reseed_at:
                evs.append(_halton_ev(d, cur_seed, cur_sizes, unit(cap.raw), pr, reseeded=cur_seed != seed))
                cap.raw.clear()
                cur_seed, cur_sizes = seed2, []
                s.random_state = seed2                         # a seed reset also resets the cursor
            s.sample_batch(n, space, np.zeros((0, d)), np.zeros(0))
            cur_sizes.append(n)
        evs.append(_halton_ev(d, cur_seed, cur_sizes, unit(cap.raw), pr, reseeded=cur_seed != seed))
    return evs


_INV2: dict = {}


def _start_from_first_point(x0: float) -> int:
    """the start index s such that the first emitted coordinate in base 2 is the radical inverse of s + 1"""
    if not _INV2:
        for n in range(1, 2**16 + 2**13):
            num, den, m = 0, 1, n
            while m:
                num, den, m = num * 2 + (m & 1), den * 2, m >> 1
            _INV2[num / den] = n
    return _INV2.get(float(x0), 0) - 1


def _halton_ev(d, seed, sizes, raws, pr, reseeded: bool = False) -> dict:
    from black_it.samplers.halton import HaltonSampler
    from black_it.search_space import SearchSpace

    pts = np.vstack(raws) if raws else np.zeros((0, d))
    start = _start_from_first_point(pts[0, 0]) if len(pts) else 20
    # seed-determined: an identical sampler (same seed, same way of seeding) starts at the same point
    twin = HaltonSampler(batch_size=1, random_state=None if reseeded else seed, max_deduplication_passes=0)
    if reseeded:
        twin.random_state = seed
    with quiet():
        first = twin._halton(1, d)  # noqa: SLF001
    sok = bool(len(pts) == 0 or (first.shape[1] == pts.shape[1] and np.allclose(first[0], pts[0], rtol=0, atol=1e-12)))
    total = sum(sizes)
    dens = [den_for(max(start, 0) + total, b) for b in pr]
    nums = [[nums_of([pts[k, j]], dens[j])[0] for j in range(d)] for k in range(len(pts))]
    return {"e": "halton", "s": start, "sok": sok, "d": d, "sizes": sizes, "nums": nums, "primes": pr, "dens": dens,
            "rows_per_batch_ok": [len(r) for r in raws] == sizes}


def phi_high(d: int) -> Decimal:
    getcontext().prec = 60
    x = Decimal(2)
    for _ in range(200):
        x = (1 + x) ** (Decimal(1) / Decimal(d + 1))
    return x


def rseq_event(d: int, seed: int, sizes: list[int]) -> dict:
    from black_it.samplers import r_sequence as rmod
    from black_it.search_space import SearchSpace

    lo, up = [(0.0, 1.0), (0.0, 1.0), (-2.0, 6.0), (1.0, 3.0)][(seed + d) % 4]
    space = SearchSpace([[lo] * d, [up] * d], [0.5 * (up - lo)] * d, verbose=False)
    s = rmod.RSequenceSampler(batch_size=1, random_state=seed, max_deduplication_passes=0)
    with Capture(rmod) as cap:
        for n in sizes:
            s.sample_batch(n, space, np.zeros((0, d)), np.zeros(0))
    pts = (np.vstack(cap.raw) - lo) / (up - lo)
    phi = phi_high(d)
    alpha = [Decimal(1) / phi ** (j + 1) for j in range(d)]
    # the sampler draws (start index, offset) from the generator of its seed: at construction the pair is drawn twice,
    # after a seed reset once - either pair is "seed-determined"
    g = np.random.default_rng(seed)
    cands = [(int(g.integers(20, 2**16)), Decimal(float(g.random()))) for _ in range(2)]
    anchor = False
    for start, offset in cands:
        ok = True
        for j in range(d):
            want = (offset + start * alpha[j]) % 1
            diff = abs(Decimal(float(pts[0, j])) - want)
            if min(diff, 1 - diff) > Decimal("1e-9"):
                ok = False
        anchor = anchor or ok
    in_unit = bool(np.all((pts >= 0) & (pts < 1)))
    return {"e": "rseq", "a": [int((a * M30).to_integral_value()) for a in alpha], "sizes": sizes,
            "pts": [[int(round(float(x) * M30)) % M30 for x in row] for row in pts], "anchor": bool(anchor and in_unit),
            "rows_per_batch_ok": [len(r) for r in cap.raw] == sizes}


def snapped_halton_event(d: int, seed: int, sizes: list[int]) -> dict:
    """no capture: the sampler's *returned* points on a grid so fine that snapping is injective (step 1/b^K per dimension)"""
    from black_it.samplers.halton import HaltonSampler
    from black_it.search_space import SearchSpace

    pr = primes(d)
    total = sum(sizes)
    dens = [den_for(2**16 + total, b) for b in pr]
    space = SearchSpace([[0.0] * d, [1.0] * d], [1.0 / x for x in dens], verbose=False)
    s = HaltonSampler(batch_size=1, random_state=seed, max_deduplication_passes=0)
    rows = [s.sample_batch(n, space, np.zeros((0, d)), np.zeros(0)) for n in sizes]
    pts = np.vstack(rows)
    nums = [[int(np.argmin(np.abs(space.param_grid[j] - pts[k, j]))) if pts[k, j] in space.param_grid[j] else -1 for j in range(d)]
            for k in range(len(pts))]
    start = _start_from_first_point(nums[0][0] / dens[0]) if nums and nums[0][0] >= 0 else 20
    return {"e": "halton", "s": start, "sok": True, "d": d, "sizes": sizes, "nums": nums, "primes": pr, "dens": dens}


def run(tier: str) -> int:
    chk = Check("C13", tier)
    rng = random.Random(1300 + chk.seed)
    r = tlc.model_check("QuasiRandom", "MC_C13.cfg" if tier == "quick" else "MC_C13_thorough.cfg", workers=8, deadlock=False)
    if not r["ok"]:
        raise tlc.MachineryError(f"QuasiRandom design violates {r['violated']}")
    chk.add_mc(r, "cursor algebra: Contiguous / Distinct / InUnitCube for every sequence of batch sizes from several start indices")
    chk.add_mc(tlc.expect_counterexample("QuasiRandom", "MC_C13_mut1.cfg", "Contiguous", workers=2, deadlock=False), "non-vacuity: cursor not advanced")
    chk.add_mc(tlc.expect_counterexample("QuasiRandom", "MC_C13_mut2.cfg", "Contiguous", workers=2, deadlock=False), "non-vacuity: cursor skips one index")
    p40 = primes(40)
    evs = []
    with quiet():
        # sampler objects of growing dimension first, before anything else in this process has asked for primes: every new sampler
        # needs more primes than any earlier one (state shared between sampler objects would surface here)
        for d in (1, 2, 3, 5, 8, 13, 21, 40, 7, 2):
            evs += halton_event(d, rng.randrange(2**31), [rng.randint(1, 4), rng.randint(1, 4)])
        if tier == "quick":
            evs += vdc_events(p40[:3], 0, 2**16 + 2**12)                               # all indices for bases 2, 3, 5
            for b in p40[3:]:                                                           # carries / prime powers / ends for the rest
                pts = sorted({0, 15, b - 2, b * b - 3, b**3 - 5 if b**3 < 69000 else 1000, 2**16 - 8, 2**16 + 2**12 - 16, rng.randrange(0, 69000)})
                for first in pts:
                    evs += vdc_events([b], max(0, first), max(0, first) + 16, chunk=16)
        else:
            evs += vdc_events(p40, 0, 2**16 + 2**12)                                    # every index, every one of the 40 bases
        evs += primes_events()
        n_s = 60 if tier == "quick" else 600
        for i in range(n_s):
            d = rng.choice([1, 2, 3, 5, 8, 13, 21, 40]) if i % 3 else rng.randint(1, 40)
            sizes = [rng.randint(1, 6) for _ in range(rng.randint(1, 5))]
            if i % 7 == 0:
                sizes = [4, 4] if i % 14 else [8]                                       # two batches of n / one batch of 2n from the same seed
            seed = rng.randrange(2**31) if i % 7 else 424242
            if i % 5 == 0:
                evs += halton_event(d, seed, sizes, reseed_at=rng.randrange(len(sizes)), seed2=rng.randrange(2**31))
            else:
                evs += halton_event(d, seed, sizes)
            evs.append(rseq_event(d, seed, sizes))
        # seeds whose start index lies just below 2^16: the sequence goes on beyond it (indices up to 2^16 + 2^12 are in scope)
        from black_it.samplers.halton import HaltonSampler

        found, sd, tries = [], rng.randrange(2**20), 0
        while len(found) < (4 if tier == "quick" else 24) and tries < 60000:      # (about one seed in 1600 qualifies)
            sd += 1
            tries += 1
            st = _start_from_first_point(HaltonSampler(batch_size=1, random_state=sd, max_deduplication_passes=0)._halton(1, 1)[0, 0])  # noqa: SLF001
            if 2**16 - 40 <= st < 2**16:
                found.append(sd)
        for sd in found:
            evs += halton_event(rng.choice([1, 2, 5, 13]), sd, [rng.randint(3, 9) for _ in range(12)])
        chk.extra["halton_runs_crossing_2^16"] = len(found)
        for _ in range(6 if tier == "quick" else 40):
            evs.append(snapped_halton_event(rng.randint(1, 4), rng.randrange(2**31), [rng.randint(1, 5) for _ in range(3)]))
    bad_shape = [e for e in evs if e.get("rows_per_batch_ok") is False]
    traces = [[{k: v for k, v in e.items() if k != "rows_per_batch_ok"}] for e in evs]
    res = tlc.validate_parallel("QuasiRandomTrace", "QuasiRandomTrace.cfg", traces, parts=12)
    chk.add_validation(res)
    chk.evaluations = sum(len(e.get("nums", e.get("pts", e.get("ps", [])))) for e in evs)
    chk.extra.update({"events": {k: sum(1 for e in evs if e["e"] == k) for k in ("vdc", "primes", "halton", "rseq")},
                      "distinct_nontrivial": len({repr(e)[:200] for e in evs})})
    for e in evs[:1] + [x for x in evs if x["e"] == "halton"][:1] + [x for x in evs if x["e"] == "rseq"][:1]:
        chk.sample({k: (v if not isinstance(v, list) or len(v) < 12 else v[:12] + ["..."]) for k, v in e.items()})
    for e in bad_shape:
        chk.violation(f"{e['e']}:batch-shape", "a batch did not have the requested number of rows", {"event": e})
    for tid, why in res["rejected"].items():
        e = evs[tid - 1]
        chk.violation(e["e"], f"{why['why']}", {"event": e, "tlc": why})
    return chk.finish("halton() as integer numerators for all start indices in [0, 2^16+2^12) (quick: bases 2,3,5 completely + carries/prime "
                      "powers/ends for the other 37 bases; thorough: all 40 bases completely), get_n_primes(1..60) in any order, "
                      "HaltonSampler / RSequenceSampler objects with random batch-size sequences in 1-40 dimensions (pre-snap points "
                      "captured at the call of digitize_data; seed resets inside the sequence; a few runs on injective grids without capture)",
                      exhaustive=(tier == "thorough"))


def replay(rep: dict) -> int:
    chk = Check("C13", "quick")
    e = rep["event"]
    with quiet():
        if e["e"] == "vdc":
            evs = vdc_events([e["b"]], e["first"], e["first"] + len(e["nums"]), chunk=len(e["nums"]))
        elif e["e"] == "primes":
            evs = primes_events()
        else:
            evs = [e]
    res = tlc.validate("QuasiRandomTrace", "QuasiRandomTrace.cfg", {"traces": [[x] for x in evs]})
    chk.add_validation(res)
    for _tid, why in res["rejected"].items():
        chk.violation("replay", why["why"], {"event": e})
    return chk.finish("replay")
