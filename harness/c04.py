"""C04 - a checkpoint restores the calibrator state exactly.

design    : Checkpoint.tla (MC_C04): every history of <= 3 saves of states of two runs (0..2 rows) into one folder, five-file JSON
            back-end with the series file logic, and the SQLite back-end: RestoreEqualsSaved; the pinned append-in-place logic is refuted.
conformance: (A) every such history (TLC-generated, 0..3 rows) replayed on the real save/load functions of both back-ends with float
            values that are hard to round-trip; the loaded tuple is classified component by component and validated by TLC
            (CheckpointTrace.tla);  (B) histories of {calibrate, create_checkpoint, restore, new run in the same folder} on the real
            Calibrator with built-in stateful samplers: deep projection (configuration, counters, arrays, generator state, scheduler and
            sampler object graphs, loss, id table) of the live object vs the restored one, compared by TLC (Observable.tla);
            (C) scripted runs with the folder read back after every calibrate() (CalibrationTrace.tla, disk events).
"""
from __future__ import annotations

import json
import random
import shutil
import tempfile

import numpy as np

from . import calcfg, calcheck, ckpt, tlc, twins
from .common import REPO, Check, quiet


def gen_histories() -> list[list]:
    out = tlc.evaluate("GenCheckpoint", "Gen_C04.cfg")
    hs = set()
    for tup in tlc.printed_tuples(out):
        if tup.startswith('<<"SCRIPT", '):
            hs.add(json.loads(tup[len('<<"SCRIPT", '):-2]))
    return [json.loads(x) for x in sorted(hs)]


def run_history(hist: list, known: dict) -> dict:
    ev = []
    for b in ("json", "sqlite"):
        folder = tempfile.mkdtemp(prefix=f"verif-c04-{b}-")
        try:
            done = []
            for run, rows in hist:
                done.insert(0, (run, rows))
                try:
                    with quiet():
                        ckpt.save(folder, run, rows, b)
                    ev.append({"e": "save", "b": b, "run": run, "rows": rows})
                except Exception as e:  # noqa: BLE001
                    ev.append({"e": "save-raised", "b": b, "run": run, "rows": rows, "what": f"{type(e).__name__}: {e}"[:160]})
                    break
                with quiet():
                    ev.append(ckpt.load(folder, b, known[b], done))
        finally:
            shutil.rmtree(folder, ignore_errors=True)
    return {"ev": ev, "hist": hist}


# ---- (B) calibrator level ------------------------------------------------------------------------
def deep_obs(cal) -> list[dict]:
    g = cal.random_generator
    keys = {
        "config": ckpt._b([np.asarray(cal.param_grid.parameters_bounds, dtype=float), np.asarray(cal.param_grid.parameters_precision, dtype=float),  # noqa: SLF001
                           np.asarray(cal.real_data, dtype=float), int(cal.ensemble_size), int(cal.N), int(cal.D),
                           cal.convergence_precision, bool(cal.verbose), str(cal.saving_folder), cal.random_state, int(cal.n_jobs),
                           cal.model.__name__]),
        "counters": ckpt._b([int(cal.current_batch_index), int(cal.n_sampled_params)]),  # noqa: SLF001
        "params": ckpt._b(np.asarray(cal.params_samp)), "losses": ckpt._b(np.asarray(cal.losses_samp)),  # noqa: SLF001
        "series": ckpt._b(np.asarray(cal.series_samp)), "batch": ckpt._b(np.asarray(cal.batch_num_samp)),  # noqa: SLF001
        "method": ckpt._b(np.asarray(cal.method_samp)),  # noqa: SLF001
        "dtypes": repr([str(np.asarray(x).dtype) for x in (cal.params_samp, cal.losses_samp, cal.series_samp)]).encode(),
        "rng": ckpt.deep(g), "scheduler": ckpt.deep(cal.scheduler), "loss": ckpt.deep(cal.loss_function),
        "table": ckpt._b(dict(cal.samplers_id_table)),  # noqa: SLF001
    }
    return [{"e": "obs", "k": k, "h": ckpt.h(v)} for k, v in keys.items()]


def scenario(cfg_a: dict, cfg_b: dict, ops: list) -> dict:
    """ops over {("call", n), ("mkckpt",), ("restore",), ("newrun", n)}; after every op that writes the folder the live object is
    compared with what restore_from_checkpoint reads back"""
    from black_it.calibrator import Calibrator

    folder = tempfile.mkdtemp(prefix="verif-c04b-")
    traces = []
    try:
        with quiet():
            cal = twins.build(cfg_a, folder=folder)
            for op in ops:
                wrote = False
                label = op[0]
                try:
                    if op[0] == "call":
                        cal.calibrate(op[1])
                        wrote = op[1] > 0
                    elif op[0] == "mkckpt":
                        cal.create_checkpoint(folder)
                        wrote = True
                    elif op[0] == "restore":
                        cal = Calibrator.restore_from_checkpoint(folder, model=cal.model)
                    elif op[0] == "newrun":
                        cal = twins.build(cfg_b, folder=folder)
                        cal.calibrate(op[1])
                        wrote = op[1] > 0
                except Exception as e:  # noqa: BLE001
                    traces.append({"ev": [{"e": "variant", "axes": f"live after {label}"},
                                          {"e": "crash", "what": f"{label}: {type(e).__name__}: {e}"[:200]}], "op": op})
                    break
                if wrote:
                    ev = [{"e": "variant", "axes": f"live after {label}"}] + deep_obs(cal)
                    try:
                        back = Calibrator.restore_from_checkpoint(folder, model=cal.model)
                        ev += [{"e": "variant", "axes": f"restored after {label}"}] + deep_obs(back)
                    except Exception as e:  # noqa: BLE001
                        ev += [{"e": "variant", "axes": f"restored after {label}"}, {"e": "crash", "what": f"restore: {type(e).__name__}: {e}"[:200]}]
                    traces.append({"ev": ev, "op": op})
    finally:
        shutil.rmtree(folder, ignore_errors=True)
    return {"traces": traces, "cfg_a": cfg_a, "cfg_b": cfg_b, "ops": ops}


def _scen_worker(args):
    import os

    cfg_a, cfg_b, ops, repo = args
    os.environ["VERIF_REPO"] = repo
    from . import common

    common.use_repo()
    r = scenario(cfg_a, cfg_b, ops)
    common.shutdown_loky()
    return r


def scenarios(tier: str, rng: random.Random) -> list[tuple]:
    jobs = []
    lineups = [[["HaltonSampler", 2], ["RSequenceSampler", 2]], [["RandomUniformSampler", 3], ["ParticleSwarmSampler", 2], ["BestBatchSampler", 2]],
               [["HaltonSampler", 2], ["XGBoostSampler", 2]], [["RSequenceSampler", 3], ["RandomForestSampler", 1]],
               [["HaltonSampler", 3], ["CORSSampler", 1]], [["RandomUniformSampler", 2], ["GaussianProcessSampler", 1]]]
    n = 8 if tier == "quick" else 60
    for i in range(n):
        a = twins.random_config(rng)
        a["lineup"] = [list(x) for x in lineups[i % len(lineups)]]
        b = twins.random_config(rng)
        b["lineup"] = [list(x) for x in lineups[(i + 1) % len(lineups)]]
        if i % 3 == 0:     # a simulation length other than the length of the real series (method of moments)
            a.update({"loss": "MethodOfMomentsLoss", "simextra": 5})
            b.update({"loss": "MethodOfMomentsLoss", "simextra": 11})
        kind = i % 4
        if kind == 0:      # same shape, the new run has fewer / equal / more rows than the old checkpoint
            b["E"], b["N"], b["prec"], b["bounds"] = a["E"], a["N"], a["prec"], a["bounds"]
            ops = [("call", rng.randint(2, 4)), ("newrun", rng.randint(1, 4))]
        elif kind == 1:    # other shape (ensemble size / length differ)
            b["E"] = a["E"] % 3 + 1
            ops = [("call", 2), ("newrun", rng.randint(1, 3))]
        elif kind == 2:
            ops = [("mkckpt",), ("call", 2), ("restore",), ("call", 1), ("mkckpt",), ("restore",), ("call", 2)]
        else:
            ops = [("call", 1), ("call", 2), ("restore",), ("call", 1), ("newrun", 2), ("restore",), ("call", 1)]
        jobs.append((a, b, ops, str(REPO)))
    return jobs


# ------------------------------------------------------------------------------------------------
def gate_traces() -> list[list[dict]]:
    """(D) the two gates of a restore (RestoreGates.tla): stored vs given model name on the public entry point, stored vs current
    schema version on the SQLite loader.  One real restore per request."""
    import shutil
    import sqlite3
    import tempfile

    from black_it.calibrator import Calibrator
    from black_it.utils import sqlite3_checkpointing as sq

    from . import ckpt

    out = []
    for given in ("model_A", "model_B", "model_a", "model_A "):
        folder = tempfile.mkdtemp(prefix="verif-gate-")
        try:
            with quiet():
                ckpt.save(folder, "A", 2, "json")

                def model(theta, N, seed):  # noqa: ARG001, N803
                    return None

                model.__name__ = given
                try:
                    Calibrator.restore_from_checkpoint(folder, model=model)
                    oc = "object"
                except Exception as e:  # noqa: BLE001
                    oc = "refused:model" if "model provided appears to be different" in str(e) else f"other:{type(e).__name__}"
            out.append([{"b": "json", "stored": "model_A", "given": given, "ver": 0, "code": 0, "outcome": oc}])
        finally:
            shutil.rmtree(folder, ignore_errors=True)
    code = int(sq.SCHEMA_VERSION)
    for ver in (code, code + 1, code - 1 if code > 0 else code + 2, 0 if code != 0 else 7):
        folder = tempfile.mkdtemp(prefix="verif-gate-")
        try:
            with quiet():
                ckpt.save(folder, "A", 2, "sqlite")
                con = sqlite3.connect(folder + "/checkpoint.sqlite")
                con.execute(f"PRAGMA user_version={int(ver)}")
                con.commit()
                con.close()
                try:
                    sq.load_calibrator_state(folder)
                    oc = "object"
                except sq.SchemaVersionMismatchError:
                    oc = "refused:schema"
                except Exception as e:  # noqa: BLE001
                    oc = f"other:{type(e).__name__}"
            out.append([{"b": "sqlite", "stored": "model_A", "given": "model_A", "ver": int(ver), "code": code, "outcome": oc}])
        finally:
            shutil.rmtree(folder, ignore_errors=True)
    return out


def run(tier: str) -> int:
    chk = Check("C04", tier)
    rng = random.Random(400 + chk.seed)
    for cfg, note in (("MC_C04.cfg", "repaired series-file logic: RestoreEqualsSaved over all histories of <= 3 saves, both back-ends"),):
        r = tlc.model_check("MC_Checkpoint", cfg, workers=8, deadlock=False)
        if not r["ok"]:
            raise tlc.MachineryError(f"{cfg} violates {r['violated']}")
        chk.add_mc(r, note)
    chk.add_mc(tlc.expect_counterexample("MC_Checkpoint", "MC_C04_pinned.cfg", "RestoreEqualsSaved", workers=4, deadlock=False),
               "non-vacuity: pinned append-in-place series file restores another run's series")
    # (A) direct save/load
    hists = gen_histories()
    chk.extra["tlc_histories_available"] = len(hists)
    pick = calcheck.sample_scripts(hists, 140 if tier == "quick" else len(hists), rng)
    known = {b: ckpt.Known(["A", "B", "A2"], b) for b in ("json", "sqlite")}
    # histories in which two runs share rows without being prefixes of each other, always included
    shared = [hh for hh in hists if {"A", "A2"} <= {r for r, _ in hh}]
    pick = pick + calcheck.sample_scripts(shared, 40 if tier == "quick" else 0, rng)
    results = [run_history(hh, known) for hh in pick]
    doc = {"traces": [{"ev": [_tl(e) for e in r["ev"]]} for r in results]}
    res = tlc.validate("CheckpointTrace", "CheckpointTrace.cfg", doc, chunk=400)
    chk.add_validation(res)
    for r in results[:2]:
        chk.sample({"history": r["hist"], "events": r["ev"][:4]})
    for tid, why in res["rejected"].items():
        r = results[tid - 1]
        ev = r["ev"][why["at"] - 1]
        if ev["e"] == "save-raised":
            key = f"{ev['b']}:save-raised:{ev['what'].split(':')[0]}"
            what = f"save of state ({ev['run']},{ev['rows']}) raised {ev['what']} in history {r['hist']}"
        else:
            st = [e for e in r["ev"][:why["at"]] if e["e"] == "save" and e["b"] == ev["b"]]
            last = st[-1] if st else {"run": "?", "rows": -1}
            prevs = st[-2] if len(st) > 1 else None
            bad = [k for k in ("params", "sched", "loss", "csv", "h5") if ev["err"] or ev["comp"][k] != ckpt.whole(last["run"], last["rows"])[k]]
            before = ("empty" if prevs is None else "same-run" if prevs["run"] == last["run"] else
                      "other-run-" + ("fewer" if prevs["rows"] < last["rows"] else "equal" if prevs["rows"] == last["rows"] else "more"))
            key = f"{ev['b']}:{'error' if ev['err'] else '+'.join(bad)}:{'rows0' if last['rows'] == 0 else 'rows>0'}:{before}"
            what = (f"{ev['b']} back-end: state ({last['run']},{last['rows']}) saved over a folder holding [{before}] is read back "
                    f"{'with an error ' + ev.get('what', '') if ev['err'] else 'with different ' + '+'.join(bad)}")
        chk.violation(key, what, {"history": r["hist"], "events": r["ev"], "tlc": why})
    # (B) calibrator level, deep projection
    scen = twins.pool_map(_scen_worker, scenarios(tier, rng), procs=8)
    flat = [(s, t) for s in scen for t in s["traces"]]
    res2 = tlc.validate("Observable", "Observable.cfg", {"traces": [{"ev": t["ev"]} for _, t in flat]})
    chk.add_validation(res2)
    for s in scen[:2]:
        chk.sample({"lineup": s["cfg_a"]["lineup"], "ops": s["ops"]})
    for tid, why in res2["rejected"].items():
        s, t = flat[tid - 1]
        ev = t["ev"][why["at"] - 1]
        same_shape = (s["cfg_a"]["E"], s["cfg_a"]["N"]) == (s["cfg_b"]["E"], s["cfg_b"]["N"])
        ctx = "newrun-" + ("same-shape" if same_shape else "other-shape") if t["op"][0] == "newrun" else t["op"][0]
        comp = ev.get("k") or ev.get("what", "").split(":")[1].strip()[:40]
        chk.violation(f"calibrator:{ctx}:{comp}",
                      f"after {t['op']}: restored calibrator differs from the live one in [{comp}] {ev.get('what', '')}",
                      {"cfg_a": s["cfg_a"], "cfg_b": s["cfg_b"], "ops": s["ops"], "op": t["op"], "event": ev, "tlc": why})
    # (C) the folder holds the state calibrate() returned with (scripted runs, disk read back after every call)
    base = calcfg.config("Gen_C02")
    ops = [o for o in calcheck.maximal(calcheck.tlc_scripts("Gen_C02")) if not any(x[0] == "fault" for x in o)]
    scripts = [calcheck.to_script(o, base, seed=rng.randrange(1, 10**6), saving=True)
               for o in calcheck.sample_scripts(ops, 60 if tier == "quick" else 600, rng)]
    # ... also when calibrate() returns early (convergence stop): the folder holds the state it returned with
    b14 = calcfg.config("Gen_C14")
    o14 = calcheck.maximal(calcheck.tlc_scripts("Gen_C14"))
    scripts += [calcheck.to_script(o, b14, seed=rng.randrange(1, 10**6), saving=True, verbose=rng.random() < 0.5, prec=rng.randint(0, 12))
                for o in calcheck.sample_scripts(o14, 40 if tier == "quick" else 269, rng)]
    traces = calcheck.execute(scripts)
    calcheck.validate(chk, traces, relevant={"C04", "C05"})
    # (D) growth beyond the listed property: the restore gates
    for cfg in ("MC_RestoreGates.cfg", "MC_RestoreGates_alt.cfg"):
        rg = tlc.model_check("RestoreGates", cfg, workers=2, deadlock=False)
        if not rg["ok"]:
            raise tlc.MachineryError(f"RestoreGates ({cfg}) violates {rg['violated']}")
        chk.add_mc(rg, "restore gates: no object for another model / schema, no spurious refusal, whatever the order of the two gates")
    gt = gate_traces()
    rg = tlc.validate("RestoreGatesTrace", "RestoreGatesTrace.cfg", {"traces": gt})
    chk.add_validation(rg)
    chk.extra["restore_gate_requests"] = len(gt)
    for tid, why in rg["rejected"].items():
        e = gt[tid - 1][0]
        chk.violation(f"gate:{e['b']}:{e['outcome'].split(':')[0]}", f"restore gate: {why['why']} ({e})", {"gate": e, "tlc": why})
    chk.evaluations = len(results) + len(flat) + len(traces)
    chk.extra["distinct_nontrivial"] = len({repr(r["hist"]) for r in results}) + len(flat) + len(traces)
    chk.extra["calibrator_scenarios"] = len(scen)
    return chk.finish("(A) TLC-generated histories of <= 3 saves of states of two runs (0..3 rows, strtod-hard / subnormal / huge / infinite "
                      "floats) on the real save/load functions of both back-ends, loaded tuple classified per component; (B) histories of "
                      "{calibrate, create_checkpoint, restore, new run in the same folder (fewer/equal/more rows, other shape)} on the real "
                      "Calibrator with built-in stateful samplers, deep projection live vs restored; (C) scripted runs with the folder read "
                      "back after every calibrate()")


def _tl(e: dict) -> dict:
    if e["e"] == "load":
        return {"e": "load", "b": e["b"], "err": e["err"], "comp": e["comp"]}
    return {k: v for k, v in e.items() if k != "what"}


def replay(rep: dict) -> int:
    chk = Check("C04", "quick")
    if "history" in rep:
        known = {b: ckpt.Known(["A", "B", "A2"], b) for b in ("json", "sqlite")}
        r = run_history(rep["history"], known)
        res = tlc.validate("CheckpointTrace", "CheckpointTrace.cfg", {"traces": [{"ev": [_tl(e) for e in r["ev"]]}]})
        chk.add_validation(res)
        for tid, why in res["rejected"].items():
            chk.violation("replay", why["why"], {"history": rep["history"], "events": r["ev"]})
    elif "ops" in rep:
        s = scenario(rep["cfg_a"], rep["cfg_b"], [tuple(o) for o in rep["ops"]])
        res = tlc.validate("Observable", "Observable.cfg", {"traces": [{"ev": t["ev"]} for t in s["traces"]]})
        chk.add_validation(res)
        for tid, why in res["rejected"].items():
            chk.violation("replay", why["why"], {"ops": rep["ops"]})
    else:
        traces = calcheck.execute([rep["script"]], procs=1)
        calcheck.validate(chk, traces, relevant=None)
    return chk.finish("replay")
