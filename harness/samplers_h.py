"""Shared harness for C03 / C16: concrete search spaces, on-grid histories, built-in samplers with option lattices,
and the projection of a sample() call into (doubled) grid units for SamplerContractTrace.tla."""
from __future__ import annotations

import hashlib
import random

import numpy as np

from .common import quiet

NAMES = ["HaltonSampler", "RSequenceSampler", "RandomUniformSampler", "BestBatchSampler", "ParticleSwarmSampler", "CORSSampler",
         "RandomForestSampler", "XGBoostSampler", "GaussianProcessSampler"]
SCALES = [1e-3, 0.1, 0.3, 1.0, 7.0, 1e4, 0.25, 0.01]
STEPS = [1, 2, 3, 7, 25, 100, 1000]


def random_space(rng: random.Random, max_dims: int = 6, heavy: bool = False):
    """bounds of any sign and scale, precisions that do or do not divide the range"""
    d = rng.randint(1, max_dims)
    lo, up, pr, rem = [], [], [], []
    for _ in range(d):
        scale = rng.choice(SCALES)
        k = rng.choice(STEPS[1:4] if heavy else STEPS[1:])
        p = scale * rng.choice([1, 1, 3])
        sign = rng.choice(["neg", "zero", "pos", "span"])
        base = {"neg": -(k + 5) * p * 1.5, "zero": 0.0, "pos": 2.5 * p, "span": -p * (k // 2 + 0.5)}[sign]
        r = rng.choice([0, 0, 1])
        lo.append(base)
        up.append(base + k * p + (rng.choice([0.5, 0.5, 0.75, 0.9]) * p if r else 0.0))      # (a gap below, at or above half a step)
        pr.append(p)
        rem.append(r)
    return [lo, up], pr, rem


def make(name: str, bs: int, seed: int, rng: random.Random, single_pass: bool = False):
    import importlib

    mod = {"HaltonSampler": "halton", "RSequenceSampler": "r_sequence", "RandomUniformSampler": "random_uniform",
           "BestBatchSampler": "best_batch", "ParticleSwarmSampler": "particle_swarm", "CORSSampler": "cors",
           "RandomForestSampler": "random_forest", "XGBoostSampler": "xgboost", "GaussianProcessSampler": "gaussian_process"}[name]
    cls = getattr(importlib.import_module(f"black_it.samplers.{mod}"), name)
    kw = {}
    if name == "BestBatchSampler":
        kw = {"a": rng.choice([3.0, 1.0, 0.5]), "b": rng.choice([1.0, 2.0]), "perturbation_range": rng.choice([2, 3, 6, 10])}
    elif name == "ParticleSwarmSampler":
        kw = {"inertia": rng.choice([0.9, 0.5, 1.5]), "c1": rng.choice([0.1, 1.0]), "c2": rng.choice([0.1, 2.0]),
              "global_minimum_across_samplers": rng.random() < 0.5}
    elif name == "CORSSampler":
        kw = {"max_samples": rng.choice([30, 200]), "rho0": rng.choice([0.5, 0.1]), "p": rng.choice([1.0, 2.0])}
    elif name == "RandomForestSampler":
        kw = {"candidate_pool_size": rng.choice([20, 60]), "n_estimators": 6, "criterion": rng.choice(["gini", "entropy"])}
    elif name == "XGBoostSampler":
        kw = {"candidate_pool_size": rng.choice([20, 60]), "n_estimators": 4, "max_depth": 3}
    elif name == "GaussianProcessSampler":
        kw = {"candidate_pool_size": rng.choice([20, 40]), "acquisition": rng.choice(["mean", "expected_improvement"])}
    if name not in ("ParticleSwarmSampler", "CORSSampler"):
        kw["max_deduplication_passes"] = 0 if single_pass else rng.choice([0, 5])
    s = cls(batch_size=bs, random_state=seed, **kw)
    return s, kw


def to_units(arr, grids) -> list[list[int]]:
    """doubled grid coordinate of every entry, -1 if the float is not an exact element of its grid"""
    out = []
    for row in np.atleast_2d(arr):
        r = []
        for d, x in enumerate(row):
            g = grids[d]
            i = int(np.searchsorted(g, x))
            hit = [j for j in (i - 1, i, i + 1) if 0 <= j < len(g) and g[j] == x]
            r.append(2 * hit[0] if hit else -1)
        out.append(r)
    return out


def to_units_nearest(arr, grids) -> list[list[int]]:
    """doubled index of the grid element nearest to every entry (histories may hold points that are next to the grid)"""
    out = []
    for row in np.atleast_2d(arr):
        out.append([2 * int(np.argmin(np.abs(np.asarray(grids[d], dtype=float) - float(x)))) for d, x in enumerate(row)])
    return out


def sha(*arrays) -> str:
    m = hashlib.sha256()
    for a in arrays:
        a = np.ascontiguousarray(a)
        m.update(str(a.dtype).encode() + str(a.shape).encode() + a.tobytes())
    return m.hexdigest()[:16]


def dense_rank(values) -> list[int]:
    """(NaN - a surrogate may predict it from garbage - ranks after every number)"""
    vs = sorted({float(v) for v in values if float(v) == float(v)})
    pos = {v: i for i, v in enumerate(vs)}
    return [pos[float(v)] if float(v) == float(v) else len(vs) for v in values]


def history(space, n: int, rng: random.Random, extreme: bool = False, pair: bool = False, typed: str | None = None):
    grids = [np.asarray(g, dtype=float) for g in space.param_grid]
    dt = float
    if typed == "int":          # a history held as integers (possible where every parameter has integer-valued grid elements)
        cand = [g[g == np.round(g)] for g in grids]
        if all(len(c) and np.all(np.abs(c) < 2**40) for c in cand):
            grids, dt = cand, np.int64
    elif typed == "f32":        # ... or in single precision
        cand = [g[g.astype(np.float32).astype(float) == g] for g in grids]
        if all(len(c) for c in cand):
            grids, dt = cand, np.float32
    pts = np.array([[float(g[rng.randrange(len(g))]) for g in grids] for _ in range(n)], dtype=float).reshape(n, space.dims).astype(dt)
    if pair and dt is float and rng.random() < 0.35:
        # points as a user may write them (0.07 rather than the seventh element of np.arange): next to a grid element, not on it
        for i in range(n):
            for d in range(space.dims):
                if rng.random() < 0.5:
                    pts[i, d] = np.nextafter(pts[i, d], rng.choice([-np.inf, np.inf]))
    vals = [rng.choice([0.5, 1.0, 1.0, 2.5, 0.25, 3.75]) * rng.choice([1, 1, 2]) for _ in range(n)]      # ties
    if extreme and n:
        for _ in range(max(1, n // 3)):
            vals[rng.randrange(n)] = rng.choice([1e39, 1e308, -1e39, 3.5e38, 1e-300] + ([] if extreme == "finite" else [float("inf")]))
        if pair and n >= 2 and rng.random() < 0.35:
            # an infinite loss next to the largest finite double of the same sign: they are different ranks
            i, j = sorted(rng.sample(range(n), 2))
            big = float(np.finfo(float).max)
            vals[i], vals[j] = rng.choice([(-big, float("-inf")), (float("inf"), big), (float("-inf"), -big), (big, float("inf"))])
    return pts, np.array(vals, dtype=float)


def run_calls(name: str, bounds, prec, rem, bs: int, seed: int, ncalls: int, rng: random.Random, *, extreme=False, watch=False, force_typed=None):
    """successive sample() calls on ONE sampler object with the history growing like in a calibration; returns events"""
    from black_it.search_space import SearchSpace

    events = []
    with quiet():
        space = SearchSpace(bounds, prec, verbose=False)
        grids = space.param_grid
        g = [len(x) for x in grids]
        # remainder of the range beyond the last grid element, read off the real grid (0: the upper bound is a grid element)
        rem = [0 if abs(float(space.parameters_bounds[1][d]) - float(grids[d][-1])) <= 1e-7 + 1e-9 * abs(float(grids[d][-1])) else 1
               for d in range(space.dims)]
        # (the pool -> predictions -> selection of ONE sample_batch call is observed: no deduplication redraws then)
        s, kw = make(name, bs, seed, rng, single_pass=watch and name in ("RandomForestSampler", "XGBoostSampler", "GaussianProcessSampler"))
        n0 = max(bs, 3) + rng.randint(0, 4)
        typed = rng.choice([None, None, "int", "f32"]) if name in ("BestBatchSampler", "ParticleSwarmSampler", "XGBoostSampler") else None
        typed = force_typed or typed
        pts, losses = history(space, n0, rng, extreme if name not in ("GaussianProcessSampler", "RandomForestSampler", "CORSSampler") else False,
                              pair=name == "BestBatchSampler", typed=typed)
        if extreme and name in ("GaussianProcessSampler", "RandomForestSampler", "CORSSampler"):
            # finite extremes, and now and then an infinite one (these samplers may refuse it: then the history must be intact)
            losses[rng.randrange(len(losses))] = rng.choice([1e39, 1e300, -1e39, float("inf")])
        spy = {}
        if watch and hasattr(s, "fit"):
            of, op = s.fit, s.predict

            def fit(X, y):  # noqa: N803
                spy["fit"] = (sha(X, y), X.shape)
                return of(X, y)

            def predict(X):  # noqa: N803
                spy["pool"] = np.array(X, copy=True)
                p = op(X)
                out = p[0] if isinstance(p, tuple) else p
                spy["pred"] = np.array(out, dtype=float, copy=True)
                return p
            s.fit, s.predict = fit, predict
        for c in range(ncalls):
            before = sha(pts, losses)
            keep_p, keep_l = pts.copy(), losses.copy()
            spy.clear()
            try:
                from .plugins import Hang, _watchdog

                try:
                    with _watchdog(300):
                        out = s.sample(space, pts, losses)
                except Hang:
                    raise RuntimeError("sample() did not return within 300 s") from None
            except Exception as e:  # noqa: BLE001
                same = before == sha(pts, losses) and np.array_equal(keep_p, pts) and np.array_equal(keep_l, losses, equal_nan=True)
                events.append({"e": "sample-raised", "cls": name, "what": f"{type(e).__name__}: {e}"[:160], "call": c, "kw": _kw(kw),
                               "bounds": bounds, "prec": prec, "bs": bs, "seed": seed, "extreme": extreme, "histsame": bool(same),
                               # ordinary = a history the sampler has to cope with: finite losses of ordinary size - for XGBoost
                               # finite losses of any size (it clips them to the float32 range itself)
                               "ordinary": bool(np.all(np.isfinite(keep_l)) and (name == "XGBoostSampler" or np.all(np.abs(keep_l) <= 1e30))),
                               "typed": typed})
                break
            out = np.asarray(out)
            same = before == sha(pts, losses) and np.array_equal(keep_p, pts) and np.array_equal(keep_l, losses, equal_nan=True)
            lo_b, up_b = np.asarray(space.parameters_bounds[0], dtype=float), np.asarray(space.parameters_bounds[1], dtype=float)
            inb = bool(out.ndim == 2 and out.shape[1] == len(lo_b) and np.all(out >= lo_b - 1e-7) and np.all(out <= up_b + 1e-7))
            ev = {"e": "sample", "cls": name, "bs": bs, "g": g, "rem": rem, "rows": int(out.shape[0]) if out.ndim == 2 else -1, "inbounds": inb,
                  "cols": int(out.shape[1]) if out.ndim == 2 else -1, "idx": to_units(out, grids) if out.ndim == 2 else [],
                  "histsame": bool(same), "call": c, "kw": _kw(kw), "bounds": bounds, "prec": prec, "seed": seed, "extreme": extreme,
                  "raw": out.tolist() if out.size <= 24 else None, "typed": typed}
            events.append(ev)
            if name == "BestBatchSampler":
                events.append({"e": "bestbatch", "bs": bs, "range": kw["perturbation_range"], "g": g, "rem": rem,
                               "hist": to_units_nearest(keep_p, grids), "rank": dense_rank(keep_l), "out": to_units(out, grids),
                               "bounds": bounds, "prec": prec, "seed": seed, "kw": _kw(kw)})
            if watch and "pred" in spy:
                pool, pred = spy["pool"], spy["pred"]
                ranks = dense_rank(pred)
                sel = []
                for row in out:
                    hit = [i for i in range(len(pool)) if np.array_equal(pool[i], row)]
                    sel.append(ranks[hit[0]] if hit else -7)
                events.append({"e": "select", "cls": name, "bs": bs, "preds": ranks, "sel": sel,
                               "fitsame": spy.get("fit", ("", ()))[0] == sha(keep_p, keep_l), "predictsame": True, "seed": seed, "kw": _kw(kw)})
            # the calibrator appends the batch and its losses - or (a sampler object reused on another history, losses recomputed)
            # the next call sees a different history of the very same shape
            if c % 2 == 1 and name not in ("ParticleSwarmSampler",):
                pts, losses = history(space, len(pts), rng, extreme and name == "BestBatchSampler", pair=True, typed=typed)
            elif out.ndim == 2 and out.shape[1] == pts.shape[1]:
                pts = np.vstack([pts, out])
                losses = np.concatenate([losses, [rng.choice([0.5, 1.0, 2.0, 0.125]) for _ in range(len(out))]])
    return events


def _kw(kw: dict) -> dict:
    return {k: (v if isinstance(v, (int, float, str, bool)) else str(v)) for k, v in kw.items()}


def clip_events(n: int, rng: random.Random) -> list[list[dict]]:
    """XGBoostSampler._clip_losses on loss vectors mixing ordinary values with values at / beyond the float32 limits"""
    from black_it.samplers.xgboost import XGBoostSampler

    f32 = float(np.finfo(np.float32).max)
    pool = [0.0, 1.5, -2.25, 1e30, -1e30, 3.0e38, -3.0e38, f32, -f32, 3.5e38, -3.5e38, 1e39, -1e39, 1e308, float("inf"), float("-inf")]
    out = []
    for k in range(n):
        m = rng.randint(1, 7)
        y = np.array([rng.choice(pool) for _ in range(m)], dtype=float)
        if k % 4 == 0:
            y = np.array([rng.choice(pool[:7]) for _ in range(m - 1)] + [rng.choice(pool[7:])], dtype=float)      # a single overflowing entry
        keep = y.copy()
        try:
            with quiet():
                res = np.asarray(XGBoostSampler._clip_losses(y), dtype=float)  # noqa: SLF001
        except Exception as e:  # noqa: BLE001
            out.append([{"e": "clip", "cls": "XGBoostSampler", "kinds": ["in"], "outs": ["other"], "inputsame": True, "what": repr(e)[:120], "y": keep.tolist()}])
            continue
        kinds = ["over" if v >= f32 else "under" if v <= -f32 else "in" for v in keep]
        outs = []
        for v, r in zip(keep, res if res.shape == keep.shape else [float("nan")] * len(keep)):
            if r == v and abs(v) < f32:
                outs.append("same")
            elif np.isfinite(r) and 0.99 * f32 <= r <= f32 and float(np.float32(r)) != float("inf"):
                outs.append("top")
            elif np.isfinite(r) and -f32 <= r <= -0.99 * f32 and float(np.float32(r)) != float("-inf"):
                outs.append("bottom")
            else:
                outs.append("other")
        out.append([{"e": "clip", "cls": "XGBoostSampler", "kinds": kinds, "outs": outs,
                     "inputsame": bool(np.array_equal(keep, y, equal_nan=True)), "y": [repr(float(v)) for v in keep]}])
    return out


def strip(e: dict) -> dict:
    keep = {"sample": ("e", "cls", "bs", "g", "rem", "rows", "cols", "idx", "histsame", "inbounds"),
            "bestbatch": ("e", "bs", "range", "g", "rem", "hist", "rank", "out"),
            "select": ("e", "bs", "preds", "sel", "fitsame", "predictsame"),
            "clip": ("e", "kinds", "outs", "inputsame")}.get(e["e"])
    return {k: e[k] for k in keep} if keep else {"e": e["e"]}


def _worker(args):
    import os

    jobs, repo = args
    os.environ["VERIF_REPO"] = repo
    from . import common

    common.use_repo()
    out = []
    for j in jobs:
        rng = random.Random(j["rseed"])
        evs = run_calls(j["name"], j["bounds"], j["prec"], j["rem"], j["bs"], j["seed"], j["ncalls"], rng,
                        extreme=j.get("extreme", False), watch=j.get("watch", False), force_typed=j.get("typed"))
        for e in evs:
            e["job"] = dict(j)          # (what a replay needs to run exactly this job again)
        out.append(evs)
    common.shutdown_loky()
    return out


def run_jobs(jobs: list[dict], procs: int = 12) -> list[list[dict]]:
    import multiprocessing as mp
    from concurrent.futures import ProcessPoolExecutor

    from .common import REPO

    if not jobs:
        return []
    procs = max(1, min(procs, len(jobs)))
    chunks = [jobs[i::procs] for i in range(procs)]
    ctx = mp.get_context("spawn")
    with ProcessPoolExecutor(max_workers=procs, mp_context=ctx) as ex:
        parts = list(ex.map(_worker, [(c, str(REPO)) for c in chunks]))
    res = [None] * len(jobs)
    for ci, part in enumerate(parts):
        for k, evs in enumerate(part):
            res[ci + k * procs] = evs
    return res
