"""C12 - deduplication replaces only repeated points and gives up only after its passes (Dedup.tla / DedupTrace.tla)."""
from __future__ import annotations

import json
import random

import numpy as np

from . import tlc
from .common import Check, quiet

EMBED = {  # point id -> coordinates (1-d and 2-d embeddings; the second one makes ids share coordinates column-wise)
    "1d": lambda k: [float(k)],
    "2d": lambda k: [float(k % 2), float(k // 2)],
    "2d-neg": lambda k: [-0.5 * k, 0.25],
    # distinct points that differ by a relative 1e-6 / an absolute 1e-9 only: equality of points is exact equality
    "1d-big": lambda k: [1e6 + k],
    "2d-tiny": lambda k: [1e6 + (k % 2), 1e-9 * (k // 2)],
}


def run_case(hist, bs, budget, stream, embed: str) -> list[dict]:
    """one sample() call on a scripted BaseSampler subclass; returns the event list"""
    from black_it.samplers.base import BaseSampler
    from black_it.search_space import SearchSpace

    emb = EMBED[embed]
    inv = {}
    for k in range(0, 12):
        inv[tuple(emb(k))] = k
    ev = [{"e": "call", "hist": list(hist), "bs": bs, "budget": budget}]
    it = iter(stream)

    class S(BaseSampler):
        def sample_batch(self, batch_size, search_space, existing_points, existing_losses):  # noqa: ARG002
            pts = [next(it) for _ in range(batch_size)]
            ev.append({"e": "draw", "n": int(batch_size), "pts": pts})
            return np.array([emb(k) for k in pts], dtype=float).reshape(batch_size, len(emb(0)))

    d = len(emb(0))
    space = SearchSpace([[-10.0] * d, [10.0] * d], [0.25] * d, verbose=False)
    h = np.array([emb(k) for k in hist], dtype=float).reshape(len(hist), d)
    keep = h.copy()
    try:
        with quiet():
            out = S(batch_size=bs, max_deduplication_passes=budget).sample(space, h, np.zeros(len(hist)))
        ids = [inv.get(tuple(float(x) for x in row), -1) for row in out]
        if out.shape != (bs, d):
            ids = ids + [-2]
        ev.append({"e": "ret", "pts": ids})
    except StopIteration:
        ev.append({"e": "ret", "pts": [-3]})        # asked for more points than any behaviour of the specification would
    except Exception as e:  # noqa: BLE001
        ev.append({"e": "raised", "what": repr(e)[:120]})
    if not np.array_equal(keep, h):
        ev.append({"e": "history-modified"})
    return ev


def tlc_cases(cfg: str) -> list[dict]:
    out = tlc.evaluate("MC_Dedup", cfg, timeout=900)
    res = set()
    for tup in tlc.printed_tuples(out):
        if tup.startswith('<<"SCRIPT", '):
            res.add(json.loads(tup[len('<<"SCRIPT", '):-2]))
    return [json.loads(x) for x in sorted(res)]


def run(tier: str) -> int:
    chk = Check("C12", tier)
    rng = random.Random(1200 + chk.seed)
    r = tlc.model_check("Dedup", "MC_C12.cfg" if tier == "quick" else "MC_C12_thorough.cfg", workers=16, deadlock=False, timeout=1200)
    if not r["ok"]:
        raise tlc.MachineryError(f"Dedup design violates {r['violated']}")
    chk.add_mc(r, "all histories (repeats included) x all draw sequences x budgets over a 3-point universe")
    chk.add_mc(tlc.expect_counterexample("Dedup", "MC_C12_mut1.cfg", "AskedExactlyRepeats", workers=4, deadlock=False),
               "non-vacuity: redraw of batch_size points instead of the number of repeats")
    chk.add_mc(tlc.expect_counterexample("Dedup", "MC_C12_mut2.cfg", "RepeatOnlyIfBudgetExhausted", workers=4, deadlock=False),
               "non-vacuity: off-by-one in the pass budget")
    cases = tlc_cases("Gen_C12.cfg")
    chk.extra["tlc_behaviours"] = len(cases)
    traces, meta = [], []
    for c in cases:                                  # every behaviour of the bounded specification, replayed
        stream = [p for d in c["draws"] for p in d] + [3, 2, 1, 3, 2, 1, 3, 2, 1, 3, 2, 1]
        emb = rng.choice(list(EMBED))
        traces.append(run_case(c["hist"], c["bs"], c["budget"], stream, emb))
        meta.append({**c, "embed": emb})
    n_rand = 1500 if tier == "quick" else 60000       # random streams: budgets 0-6, batch sizes 1-4, universes of 3-5 points
    for it in range(n_rand):
        u = rng.choice([3, 4, 5])
        hist = [rng.randint(1, u) for _ in range(rng.randint(0, 4))]
        bs, budget = rng.randint(1, 4), rng.randint(0, 6)
        if it % 250 == 7:
            hist = [rng.randint(1, 6) for _ in range(rng.choice([20, 35]))]      # long histories / larger batches now and then
            bs, u = rng.randint(3, 5), 6
        stream = [rng.randint(1, u) for _ in range(bs * (budget + 2))]
        emb = rng.choice(list(EMBED))
        traces.append(run_case(hist, bs, budget, stream, emb))
        meta.append({"hist": hist, "bs": bs, "budget": budget, "stream": stream, "embed": emb})
    return _validate(chk, traces, meta, "every behaviour of the bounded Dedup specification (TLC-generated: histories <= 2 with repeats, "
                     "batch sizes 1-2, budgets 0-2, 3-point universe) plus seeded random draw streams (budgets 0-6, batch sizes 1-4, "
                     "histories <= 4, 3-5 points, 1-d and 2-d embeddings) replayed through a scripted BaseSampler subclass; "
                     "distinct = distinct event lists")


def _validate(chk: Check, traces, meta, rule: str) -> int:
    res = tlc.validate_parallel("DedupTrace", "DedupTrace.cfg", traces, parts=12)
    chk.add_validation(res)
    chk.evaluations = len(traces)
    chk.extra["distinct_nontrivial"] = len({json.dumps(t) for t in traces if len(t) > 3})
    chk.extra["traces_with_a_returned_repeat"] = 0
    for t in traces[:2] + traces[-2:]:
        chk.sample(t)
    for tid, why in res["rejected"].items():
        w = why["why"].strip('"')
        chk.violation(w.split(":")[0][:60], f"{w} (event {why['at']})", {"case": meta[tid - 1], "trace": traces[tid - 1], "tlc": why})
    return chk.finish(rule)


def replay(rep: dict) -> int:
    chk = Check("C12", "quick")
    c = rep["case"]
    stream = c.get("stream") or [p for d in c["draws"] for p in d] + [3, 2, 1] * 4
    t = run_case(c["hist"], c["bs"], c["budget"], stream, c.get("embed", "1d"))
    return _validate(chk, [t], [c], "replay")
