"""C16 - history-driven samplers use the history faithfully and never modify it (SamplerContract.tla)."""
from __future__ import annotations

import itertools
import random

import numpy as np

from . import c03
from . import samplers_h as sh
from . import swarm
from . import tlc
from .common import Check, quiet


def stub_events(tier: str, rng: random.Random) -> list[dict]:
    """arbitrary surrogate fit/predict functions: an MLSurrogateSampler subclass whose predict returns scripted scores (ties),
    for every pool of <= 4 candidates over three score values and batch sizes 1-3 (the configuration TLC model-checks)"""
    from black_it.samplers.surrogate import MLSurrogateSampler
    from black_it.search_space import SearchSpace

    evs = []
    space = SearchSpace([[0.0, 0.0], [999.0, 999.0]], [1.0, 1.0], verbose=False)
    cases = []
    for n in (1, 2, 3, 4):
        for scores in itertools.product([0.0, 1.0, 2.0], repeat=n):
            for bs in (1, 2, 3):
                if bs <= n:
                    cases.append((scores, bs))
    if tier == "quick":
        cases = rng.sample(cases, 150)
    for scores, bs in cases:
        seen = {}

        class Stub(MLSurrogateSampler):
            def fit(self, X, y):  # noqa: N803
                seen["fit"] = sh.sha(X, y)

            def predict(self, X):  # noqa: N803
                seen["pool"] = np.array(X, copy=True)
                return np.array(scores, dtype=float)

        pts = np.array([[float(rng.randrange(1000)), float(rng.randrange(1000))] for _ in range(4)])
        los = np.array([1.0, 0.5, 0.5, 2.0])
        kp, kl = pts.copy(), los.copy()
        for _attempt in range(5):
            with quiet():
                s = Stub(batch_size=bs, random_state=rng.randrange(2**31), max_deduplication_passes=0, candidate_pool_size=len(scores))
                out = s.sample(space, pts, los)
            pool = seen["pool"]
            if len({tuple(r) for r in pool}) == len(pool):
                break          # (scores are scripted by pool position: candidates must be distinct points to be told apart)
        ranks = sh.dense_rank(scores)
        sel = []
        for row in out:
            hit = [i for i in range(len(pool)) if np.array_equal(pool[i], row)]
            sel.append(min(ranks[i] for i in hit) if hit else -7)
        evs.append({"e": "select", "cls": "stub", "bs": bs, "preds": ranks, "sel": sel, "fitsame": seen["fit"] == sh.sha(kp, kl),
                    "predictsame": True, "seed": 0, "kw": {"scores": list(scores)}})
        evs.append({"e": "sample", "cls": "stub", "bs": bs, "g": [1000, 1000], "rem": [0, 0], "rows": int(out.shape[0]), "cols": int(out.shape[1]), "inbounds": True,
                    "idx": sh.to_units(out, space.param_grid), "histsame": bool(np.array_equal(kp, pts) and np.array_equal(kl, los)),
                    "call": 0, "kw": {}, "bounds": [[0, 0], [999, 999]], "prec": [1, 1], "seed": 0})
    return evs


def run(tier: str) -> int:
    chk = Check("C16", tier)
    rng = random.Random(1600 + chk.seed)
    c03.design(chk)
    jobs = c03.jobs_for(tier, rng, extreme=True, watch=True)
    # best batch over its option lattice on more spaces
    for _ in range(40 if tier == "quick" else 400):
        bounds, prec, rem = sh.random_space(rng, max_dims=4)
        jobs.append({"name": "BestBatchSampler", "bounds": bounds, "prec": prec, "rem": rem, "bs": rng.randint(1, 4),
                     "seed": rng.randrange(2**31), "ncalls": 3, "rseed": rng.randrange(2**31), "extreme": rng.random() < 0.5})
    results = sh.run_jobs(jobs)
    results.append(stub_events(tier, rng))
    results += sh.clip_events(150 if tier == "quick" else 3000, rng)
    swarm.run_growth(chk, tier, random.Random(1650 + chk.seed))
    return c03.finish(chk, results, {"sample", "bestbatch", "select", "clip"},
                      "every built-in sampler called repeatedly on histories with ties and extreme / infinite / float32-overflowing losses "
                      "(history bytes compared before/after); best-batch over its option lattice (proposal = confined shock of one of the "
                      "batch_size lowest-loss points, checked per coordinate by TLC); real surrogates wrapped at fit/predict and stub "
                      "surrogates with scripted score tables (all pools <= 4 over three score values): fit saw exactly the history, the "
                      "returned candidates carry the batch_size lowest predictions")


def replay(rep: dict) -> int:
    chk = Check("C16", "quick")
    e = rep["event"]
    name = e.get("cls", "BestBatchSampler")
    if e.get("job"):
        return c03.finish(chk, sh.run_jobs([e["job"]], procs=1), {"sample", "bestbatch", "select"}, "replay of the stored job")
    if name == "stub" or "bounds" not in e:
        results = [stub_events("quick", random.Random(1))]
    else:
        results = sh.run_jobs([{"name": name if name in sh.NAMES else "BestBatchSampler", "bounds": e["bounds"], "prec": e["prec"],
                                "rem": e.get("rem", [0] * len(e["prec"])), "bs": e["bs"], "seed": e["seed"], "ncalls": 3, "rseed": 1,
                                "extreme": True, "watch": True}], procs=1)
    return c03.finish(chk, results, {"sample", "bestbatch", "select"}, "replay")
