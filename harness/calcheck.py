"""Shared machinery of the Calibration.tla-based checks (C01 C02 C05 C09 C11 C14 C18, part of C04).

  design()        TLC exhaustive runs of the property's configurations + refutation of the design mutants
  tlc_scripts()   behaviours of the specification (GenCalibration.tla) -> operation scripts
  to_script()     operation list -> concrete script for harness.plugins.run_script
  execute()       run scripts on the real Calibrator (process pool), collect traces
  validate()      TLC trace validation (CalibrationTrace.tla), rejected traces -> violations
"""
from __future__ import annotations

import json
import os
import random
import subprocess
import sys
import tempfile
from concurrent.futures import ThreadPoolExecutor
from pathlib import Path

from . import calcfg, tlc
from .common import VERIF, Check

# failing clause (from the trace spec's diagnosis) -> properties it speaks for
CLAUSE_PROPS = {
    "row-param": ["C02"], "row-series": ["C02", "C01"], "row-loss": ["C02", "C04"], "row-batch": ["C02"], "row-method": ["C02", "C18", "C09"],
    "history-length": ["C02", "C11", "C14"], "array-lengths": ["C02"], "array-lengths-at-batch-start": ["C02"],
    "batch-index": ["C02", "C14", "C11"], "sample-counter": ["C02"], "counters-at-batch-start": ["C02"],
    "sampler-position": ["C09"], "sampler-class": ["C09"], "batch-size": ["C09", "C02"], "agent-choice": ["C09", "C10"],
    "sampler-cursor": ["C05", "C04", "C01"], "sampler-generator-position": ["C05", "C04", "C01"], "sampler-seed-root": ["C01", "C05"],
    "model-vector": ["C02"], "model-seed-order": ["C01", "C02"], "model-length": ["C02"], "loss-series": ["C02"],
    "checkpoint-counters": ["C04", "C14"], "saving": ["C04"], "sorted-return": ["C02"],
    "constructor-exactly-one-of": ["C09"], "id-table": ["C18"], "threads-left": ["C11"], "raised": ["C11"],
    "disk-batch-index": ["C04", "C14"], "disk-sample-counter": ["C04", "C14"], "disk-generator": ["C04", "C05"],
    "disk-sampler-names": ["C18"], "no-checkpoint-expected": ["C04"],
}
INV_PROPS = {
    "Aligned": ["C02"], "Truthful": ["C02"], "BatchesConsecutive": ["C02"], "LabelNamesProducer": ["C18", "C02"],
    "NoThreadLeft": ["C11"], "RoundRobin": ["C09"], "BatchSizes": ["C09"], "ObservableIsRef": ["C01", "C05", "C11"],
    "HistoryIsCompletedPrefix": ["C11"], "RLBootstrap": ["C09"], "StopExactly": ["C14"], "TriggerBatchRecorded": ["C14", "C04"],
    "IdsInjective": ["C18"], "RecoverableFromDisk": ["C18"], "NoCtorRoot": ["C01"], "TypeOK": ["C02"],
}


def design(chk: Check, names: list[str], workers: int = 16) -> None:
    """Exhaustive TLC runs; `mc` entries must pass, `mut` entries must violate their first invariant/property."""
    def one(name):
        kind, comment, _o, _s, inv, props = calcfg.TABLE[name]
        res = tlc.model_check("MC_Calibration", f"{name}.cfg", workers=max(2, workers // max(1, min(4, len(names)))),
                              deadlock=False, timeout=1500)
        return name, kind, comment, inv, props, res
    with ThreadPoolExecutor(max_workers=min(4, len(names))) as ex:
        for name, kind, comment, inv, props, res in ex.map(one, names):
            if kind == "mc":
                if not res["ok"]:
                    raise tlc.MachineryError(f"design model {name} violates {res['violated']}:\n{res.get('out', '')[-2500:]}")
                chk.add_mc(res, comment)
            else:
                expected = (props or inv)[0] if props else inv[0]
                if res["violated"] is None:
                    raise tlc.MachineryError(f"vacuity: {name} ({comment}) was expected to violate {expected}")
                chk.add_mc(res, f"non-vacuity: {comment}; refuted by {res['violated']}")


def tlc_scripts(gen_name: str, *, simulate: tuple[int, int] | None = None, seed: int = 0) -> list[list]:
    """Operation scripts = behaviours of GenCalibration.tla under configuration gen_name.

    simulate=None: exhaustive (every behaviour of the bounded configuration);
    simulate=(num, depth): TLC -simulate random behaviours (seeded)."""
    if simulate is None:
        out = tlc.evaluate("GenCalibration", f"{gen_name}.cfg", timeout=900)
    else:
        num, depth = simulate
        scratch = Path(tempfile.mkdtemp(prefix="verif-sim-"))
        try:
            cmd = ["java", "-XX:+UseParallelGC", "-Xmx4g", "-cp", tlc.JAVA_CP, "tlc2.TLC", "-simulate", f"num={num}", "-depth", str(depth),
                   "-seed", str(seed + 1), "-workers", "1", "-metadir", str(scratch / "m"), "-noGenerateSpecTE", "-deadlock",
                   "-config", f"{gen_name}.cfg", "GenCalibration"]
            p = subprocess.run(cmd, cwd=str(tlc.SPECS), capture_output=True, text=True, timeout=900)
            out = p.stdout
            if "Error:" in out and "SCRIPT" not in out:
                raise tlc.MachineryError(f"TLC simulation of {gen_name} failed:\n{out[-2000:]}")
        finally:
            import shutil

            shutil.rmtree(scratch, ignore_errors=True)
    scripts = set()
    for tup in tlc.printed_tuples(out):
        if tup.startswith('<<"SCRIPT", '):
            body = tup[len('<<"SCRIPT", '):-2]
            scripts.add(json.loads(body))      # TLC prints the JSON text as a TLA+ string literal = a JSON string
    res = [json.loads(s) for s in sorted(scripts)]
    return res


def maximal(scripts: list[list]) -> list[list]:
    """drop scripts that are proper prefixes of another one (their runs are prefixes of the longer runs)"""
    keys = {json.dumps(s) for s in scripts}
    pref = set()
    for s in scripts:
        for i in range(1, len(s)):
            k = json.dumps(s[:i])
            if k in keys:
                pref.add(k)
    return [s for s in scripts if json.dumps(s) not in pref]


def to_script(ops: list, base: dict, *, seed: int, verbose=None, saving=None, njobs: int = 1, prec: int = 3,
              shape: tuple | None = None) -> dict:
    """operation list (TLC behaviour) -> concrete script"""
    sops, losses, faults, agent = [], [], [], []
    for op in ops:
        k = op[0]
        if k == "call":
            sops.append(["call", op[1]])
        elif k in ("mkckpt", "restore"):
            sops.append([k])
        elif k in ("set", "setsched"):
            sops.append([k, op[1]])
        elif k == "loss":
            losses.append(op[1])
        elif k == "fault":
            faults.append({"at": op[1], "index": op[2]})
        elif k == "choose":
            agent.append(op[1])
    cfg = {"lineup": base["lineup"], "alts": base["alts"], "kind": base["kind"], "E": base["E"], "convon": base["convon"],
           "verbose": base["verboses"][0] if verbose is None else verbose,
           "saving": base["savings"][0] if saving is None else saving, "seed": seed, "njobs": njobs, "prec": prec}
    if any(o[0] in ("mkckpt", "restore") for o in sops):
        cfg["saving"] = True
        cfg["elsewhere"] = seed % 3 != 0      # explicit checkpoints written to (and restored from) a folder that is not the saving folder
    # shape of the simulated series: (N, D, length of the real series) - varied pseudo-randomly with the seed unless given
    n, d, nreal = shape if shape is not None else [(8, 1, 8), (9, 2, 9), (8, 3, 8), (10, 2, 8), (8, 1, 8)][seed % 5]
    cfg.update({"N": n, "D": d, "Nreal": nreal})
    if njobs > 1 and seed % 2 == 0:
        cfg.update({"slow": True, "D": 1})     # parameter-dependent run times: workers complete out of task order
    elif seed % 7 == 3:
        cfg.update({"scribble": True, "D": 1})  # the model overwrites its parameter argument after use
    return {"cfg": cfg, "ops": sops, "loss": {"seq": losses, "default": base["lossvals"][-1]}, "faults": faults,
            "agent": agent or [0], "tlc_ops": ops}


# ------------------------------------------------------------------------------------------------
def _worker(args):
    scripts, repo = args
    os.environ["VERIF_REPO"] = repo
    from . import common

    common.use_repo()
    from . import plugins

    out = []
    for s in scripts:
        out.append(plugins.run_script(s))
    common.shutdown_loky()
    return out


def execute(scripts: list[dict], procs: int = 12) -> list[dict]:
    """Run the scripts on the real Calibrator in worker processes (each worker imports the tree under test)."""
    if not scripts:
        return []
    from concurrent.futures import ProcessPoolExecutor
    import multiprocessing as mp

    from .common import REPO

    procs = max(1, min(procs, len(scripts) // 4 or 1))
    if procs == 1:
        return _worker((scripts, str(REPO)))
    chunks = [scripts[i::procs] for i in range(procs)]
    ctx = mp.get_context("spawn")
    with ProcessPoolExecutor(max_workers=procs, mp_context=ctx) as ex:
        parts = list(ex.map(_worker, [(c, str(REPO)) for c in chunks]))
    # restore the original order
    res = [None] * len(scripts)
    for ci, part in enumerate(parts):
        for j, tr in enumerate(part):
            res[ci + j * procs] = tr
    return res


def validate(chk: Check, traces: list[dict], *, relevant: set[str] | None = None, chunk: int = 250) -> dict:
    """TLC validation of the recorded traces.  A rejected trace becomes a violation of the current property
    when its failing clause speaks for it (relevant=None: every rejection counts)."""
    doc = {"traces": [{"cfg": t["cfg"], "ev": t["ev"]} for t in traces]}
    chunks = [(i, doc["traces"][i:i + chunk]) for i in range(0, len(traces), chunk)]

    def one(item):
        i, part = item
        return i, tlc.validate("CalibrationTrace", "CalibrationTrace.cfg", {"traces": part}, workers=1, timeout=1500)
    acc, rej = [], {}
    with ThreadPoolExecutor(max_workers=min(8, len(chunks) or 1)) as ex:
        for i, res in ex.map(one, chunks):
            chk.add_validation(res)
            acc += [i + a for a in res["accepted"]]
            for tid, why in res["rejected"].items():
                rej[i + tid] = why
    others = 0
    for tid, why in sorted(rej.items()):
        tr = traces[tid - 1]
        clauses = _clauses(why["why"])
        props = set()
        for c in clauses:
            props |= set(CLAUSE_PROPS.get(c, INV_PROPS.get(c, [chk.pid])))
        ev0 = tr["ev"][why["at"] - 1] if why["at"] <= len(tr["ev"]) else {"e": "end"}
        if not clauses:
            # rejected without a named clause: no property is singled out, so the one being checked answers for it
            clauses = [f"event-not-explained:{ev0.get('e')}"]
            props.add(chk.pid)
        if ev0.get("e") == "raise" and not ev0.get("injected", True):
            before = [e.get("e") for e in tr["ev"][:why["at"]]]
            props = {"C04", "C05"} if "restore" in before else ({"C10", "C11", "C09"} if tr["cfg"]["kind"] == "rl" else {chk.pid})
            clauses = ["unexpected-exception:" + ev0.get("type", "")[:60]]
        if any(e.get("e") == "hang" for e in tr["ev"]):
            clauses = ["call-never-returned"] + clauses
            props |= {"C11", "C10", "C09", chk.pid} if tr["cfg"]["kind"] == "rl" else {"C11", chk.pid}
        if any(e.get("e") == "harness-error" for e in tr["ev"]):
            clauses = ["harness-error"] + clauses
            props.add(chk.pid)
        if relevant is not None and not (props & relevant):
            others += 1
            continue
        ev = tr["ev"][why["at"] - 1] if why["at"] <= len(tr["ev"]) else {"e": "end"}
        key = _key(tr, ev, clauses)
        chk.violation(key, f"trace rejected at event {why['at']} ({ev.get('e')}): {', '.join(clauses) or why['why']}",
                      {"script": tr["script"], "rejected_at": why["at"], "event": _short(ev), "clauses": clauses,
                       "tlc": why["why"], "trace_tail": [_short(e) for e in tr["ev"][max(0, why['at'] - 4):why['at']]]})
    chk.extra["traces_rejected_for_other_properties"] = chk.extra.get("traces_rejected_for_other_properties", 0) + others
    return {"accepted": acc, "rejected": rej}


def _short(ev: dict) -> dict:
    s = json.dumps(ev)
    return ev if len(s) < 1500 else {"e": ev.get("e"), "truncated": s[:1500]}


def _clauses(why: str) -> list[str]:
    import re

    m = re.search(r"\{(.*)\}", why)
    if m:
        return sorted(x.strip().strip('"') for x in m.group(1).split(",") if x.strip())
    return [why.strip().strip('"')]


def _key(tr: dict, ev: dict, clauses: list[str]) -> str:
    """classification of a failing history: scheduler kind, failing event, failing clauses (+ context flags)"""
    cfg = tr["cfg"]
    ops = [o[0] for o in tr["script"]["ops"]]
    flags = []
    if "restore" in ops:
        flags.append("restore")
    if "set" in ops or "setsched" in ops:
        flags.append("set")
    if tr["script"].get("faults"):
        flags.append("fault")
    if cfg.get("convon"):
        flags.append("conv")
    return f"{cfg['kind']}:{ev.get('e')}:{'+'.join(clauses) or 'unexplained'}" + (":" + "+".join(flags) if flags else "")


def sample_scripts(scripts: list, k: int, rng: random.Random) -> list:
    if len(scripts) <= k:
        return list(scripts)
    return rng.sample(scripts, k)


BUILTIN_LINEUPS = [
    [("HaltonSampler", 2), ("XGBoostSampler", 2)],
    [("RandomUniformSampler", 3), ("XGBoostSampler", 1), ("BestBatchSampler", 2)],
    [("HaltonSampler", 2), ("RandomForestSampler", 2)],
    [("RSequenceSampler", 2), ("BestBatchSampler", 2), ("ParticleSwarmSampler", 2)],
    [("HaltonSampler", 3), ("GaussianProcessSampler", 1)],
    [("HaltonSampler", 3), ("CORSSampler", 1)],
    [("RandomUniformSampler", 2), ("RandomForestSampler", 1), ("XGBoostSampler", 2), ("RSequenceSampler", 1)],
]


def builtin_scripts(n: int, rng: random.Random, *, extreme: bool = True, saving: bool = False, restore: bool = False) -> list[dict]:
    """line-ups of built-in samplers on the scripted model/loss: the lent history arrays are the real ones, losses
    include float32-overflowing / huge values (finite for the surrogates)"""
    out = []
    for i in range(n):
        lu = BUILTIN_LINEUPS[i % len(BUILTIN_LINEUPS)]
        lineup = [{"cls": c, "bs": b} for c, b in lu]
        nb = len(lu) * 2 + rng.randint(0, 1)
        cut = rng.randint(1, nb - 1)
        ops = [["call", cut]] + ([["restore"]] if restore else []) + [["call", nb - cut]]
        vals = [6, 3, -20, 0, 17, 4, -6]
        picky = False
        if extreme:
            # (an infinite loss makes the surrogates refuse the history: a native sampler fault, recorded like an injected one)
            picky = any("Gaussian" in c or "Forest" in c or "CORS" in c for c, _ in lu)
            vals += [-900001, 900001, 900002, 900003] + ([] if picky and i % 2 else [900004])
        seq = [rng.choice(vals) for _ in range(40)]
        if extreme:
            at = rng.randrange(0, 3)
            seq[at] = 900002      # an early float32-overflowing loss, seen by every later sampler
            if picky and i % 2 == 0:
                seq[(at + 1) % 3] = 900004      # ... and an early infinite one where a surrogate follows
        out.append({"cfg": {"lineup": lineup, "alts": [], "kind": "rr", "E": rng.choice([1, 2]), "convon": False, "verbose": False,
                            "saving": saving or restore, "seed": rng.randrange(1, 10**6), "njobs": 1, "prec": 3},
                    "ops": ops, "loss": {"seq": seq, "default": 6}, "faults": [], "agent": [0], "tlc_ops": ["builtin", lu, ops]})
    return out
