"""Single source of truth for the configurations of Calibration.tla.

`tools/gen_cfgs.py` renders them into specs/MC_Calibration.tla + specs/*.cfg; the drivers read the same
records to build the concrete scripts that are replayed on the real Calibrator.
"""
from __future__ import annotations

LU = {
    "AB": [{"cls": "A", "bs": 2}, {"cls": "B", "bs": 1}],
    "ABA": [{"cls": "A", "bs": 1}, {"cls": "B", "bs": 2}, {"cls": "A", "bs": 1}],
    "A": [{"cls": "A", "bs": 2}],
    "HA": [{"cls": "HaltonSampler", "bs": 1}, {"cls": "A", "bs": 2}],
    "AB1": [{"cls": "A", "bs": 1}, {"cls": "B", "bs": 1}],
    "ABC": [{"cls": "A", "bs": 1}, {"cls": "B", "bs": 1}, {"cls": "C", "bs": 2}],
    "AA2B": [{"cls": "A", "bs": 2}, {"cls": "A", "bs": 1}, {"cls": "B", "bs": 2}],      # a class twice, with different batch sizes
}
ALT_C_BC = [[{"cls": "C", "bs": 1}], [{"cls": "B", "bs": 1}, {"cls": "C", "bs": 1}],
            [{"cls": "C", "bs": 1}, {"cls": "A", "bs": 1}]]      # (a new class listed before an old one)
ALL_FAULTS = ["sampler", "model", "loss"]

BASE = dict(lineup=LU["AB"], alts=[], kind="rr", E=2, callsizes=[1, 2], maxbatches=3, maxcalls=3, lossvals=[6],
            convon=False, verboses=[False], savings=[True], njobs=[1], faultsat=[], restore=False, burn=None)
SWITCHES = dict(BreakOnConverged=True, CkptBeforeBreak=True, SessionFinally=True, SeedOnlyAtZero=True,
                PersistTable=True, SeedsInParent=True)
COMMON_INV = ["TypeOK", "Aligned", "Truthful", "BatchesConsecutive", "LabelNamesProducer", "NoThreadLeft"]

# name -> (kind, comment, config overrides, switch overrides, invariants, properties)
#   kind "mc"  : exhaustive check of the design, must pass
#   kind "mut" : design mutant / pinned design, the first listed invariant or property must be violated
#   kind "gen" : script generation with GenCalibration.tla
TABLE: dict[str, tuple] = {}


def _add(name, kind, comment, over=None, sw=None, inv=(), props=()):
    TABLE[name] = (kind, comment, dict(over or {}), dict(sw or {}), list(inv), list(props))


# ---- C01 ----
_c01 = dict(lineup=LU["ABA"], callsizes=[1, 2, 3], maxcalls=1, verboses=[True, False], savings=[True, False], njobs=[1, 2])
_i01 = COMMON_INV + ["ObservableIsRef", "NoCtorRoot", "RoundRobin"]
_add("MC_C01", "mc", "C01: one observable outcome per configuration whatever njobs / verbose / saving / completion order", _c01, inv=_i01)
_add("MC_C01_thorough", "mc", "C01 thorough: 4 batches, E = 3", {**_c01, "E": 3, "maxbatches": 4, "callsizes": [1, 2, 3, 4]}, inv=_i01)
_add("MC_C01_burn", "mc", "C01 whatever the seed cascade takes from the calibrator's generator (here: nothing, the code takes one draw per sampler)",
     {**_c01, "burn": 0}, inv=_i01)
_add("MC_C01_mut", "mut", "design mutant: seeds drawn inside the worker -> outcome depends on completion order", _c01,
     dict(SeedsInParent=False), inv=["ObservableIsRef"])
# ---- C02 ----
_c02 = dict(lossvals=[-20, 3, 6], faultsat=ALL_FAULTS, restore=True)
_i02 = COMMON_INV + ["RoundRobin", "BatchSizes", "ObservableIsRef", "HistoryIsCompletedPrefix"]
_add("MC_C02", "mc", "C02: aligned / truthful / append-only over all sequences of calibrate(n), faults and restores included", _c02,
     inv=_i02, props=["AppendOnly", "NextCalibrateWorks"])
_add("MC_C02_thorough", "mc", "C02 thorough", {**_c02, "maxbatches": 4, "maxcalls": 4, "callsizes": [1, 2, 3]}, inv=_i02,
     props=["AppendOnly", "NextCalibrateWorks"])
# ---- C05 ----
_c05 = dict(callsizes=[1, 2, 3, 4], maxbatches=4, maxcalls=4, restore=True)
_i05 = COMMON_INV + ["ObservableIsRef", "NoCtorRoot"]
_add("MC_C05", "mc", "C05: every composition of <= 4 batches, every cut live or checkpoint/restore", _c05, inv=_i05, props=["AppendOnly"])
_add("MC_C05_thorough", "mc", "C05 thorough: 5 batches, three samplers",
     {**_c05, "lineup": LU["ABA"], "maxbatches": 5, "maxcalls": 5, "callsizes": [1, 2, 3, 4, 5]}, inv=_i05, props=["AppendOnly"])
_add("MC_C05_mut", "mut", "design mutant: samplers re-seeded at every calibrate() -> split run differs", _c05,
     dict(SeedOnlyAtZero=False), inv=["ObservableIsRef"])
# ---- C09 ----
_c09 = dict(lineup=LU["ABA"], callsizes=[1, 2, 3], maxbatches=5, maxcalls=3, restore=True)
_add("MC_C09", "mc", "C09 round robin: batch i by sampler i mod n over calls and restores", _c09,
     inv=COMMON_INV + ["RoundRobin", "BatchSizes", "ObservableIsRef"])
_c09rl = dict(lineup=LU["AB1"], kind="rl", callsizes=[1, 2], maxbatches=4, maxcalls=3, restore=True)
_add("MC_C09_rl", "mc", "C09 RL: bootstrap Halton (appended), later batches any sampler of the set", _c09rl,
     inv=COMMON_INV + ["RLBootstrap", "BatchSizes"])
_add("MC_C09_rl3", "mc", "C09 RL: a class twice in the set, Halton appended", {**_c09rl, "lineup": LU["AA2B"], "maxbatches": 3, "maxcalls": 2},
     inv=COMMON_INV + ["RLBootstrap", "BatchSizes"])
_add("MC_C09_rl2", "mc", "C09 RL: Halton already in the set", {**_c09rl, "lineup": LU["HA"]}, inv=COMMON_INV + ["RLBootstrap", "BatchSizes"])
# ---- C11 ----
_c11 = dict(faultsat=ALL_FAULTS, savings=[True, False], callsizes=[1, 2], maxbatches=3, maxcalls=3)
_i11 = COMMON_INV + ["HistoryIsCompletedPrefix", "ObservableIsRef"]
_add("MC_C11", "mc", "C11 round robin: fault at every plug-in invocation", _c11, inv=_i11, props=["NextCalibrateWorks", "AppendOnly"])
_add("MC_C11_rl", "mc", "C11 RL scheduler", {**_c11, "kind": "rl", "lineup": LU["HA"]}, inv=_i11, props=["NextCalibrateWorks", "AppendOnly"])
_add("MC_C11_mut", "mut", "pinned design: session() without try/finally -> agent thread left running",
     {**_c11, "kind": "rl", "lineup": LU["HA"]}, dict(SessionFinally=False), inv=["NoThreadLeft"])
_add("MC_C11_mut2", "mut", "pinned design: the next calibrate() is refused", {**_c11, "kind": "rl", "lineup": LU["HA"]},
     dict(SessionFinally=False), inv=["TypeOK"], props=["NextCalibrateWorks"])
# ---- C14 ----
_c14 = dict(convon=True, lossvals=[0, 6], verboses=[True, False], savings=[True, False], callsizes=[1, 2, 3], maxbatches=4, maxcalls=2,
            lineup=LU["AB1"])
_i14 = COMMON_INV + ["StopExactly", "TriggerBatchRecorded"]
_add("MC_C14", "mc", "C14: stop exactly at the first batch whose running minimum rounds to zero", _c14, inv=_i14)
_add("MC_C14_off", "mc", "C14: no precision -> exactly n batches", {**_c14, "convon": False}, inv=_i14)
_add("MC_C14_thorough", "mc", "C14 thorough", {**_c14, "lineup": LU["AB"], "lossvals": [-20, 3, 6], "maxbatches": 5, "maxcalls": 3}, inv=_i14)
_add("MC_C14_mut", "mut", "pinned design: break only if verbose", _c14, dict(BreakOnConverged=False), inv=["StopExactly"])
_add("MC_C14_mut2", "mut", "pinned design: break skips the checkpoint", _c14, dict(CkptBeforeBreak=False), inv=["TriggerBatchRecorded"])
# ---- C18 ----
_c18 = dict(lineup=LU["AB1"], alts=ALT_C_BC, restore=True, callsizes=[1, 2], maxbatches=3, maxcalls=3)
_add("MC_C18", "mc", "C18: ids never reassigned, labels name their producer, table recoverable from disk", _c18,
     inv=COMMON_INV + ["IdsInjective", "RecoverableFromDisk"], props=["IdsNeverReassigned", "AppendOnly"])
_add("MC_C18_mut", "mut", "pinned design: table not persisted -> labels of a restored run name the wrong class", _c18,
     dict(PersistTable=False), inv=["RecoverableFromDisk"])

# ---- script generation (spec -> code) ----
_add("Gen_C02", "gen", "C02/C04: calls, faults, restores; two loss values",
     dict(lossvals=[-20, 6], faultsat=ALL_FAULTS, restore=True, maxbatches=2, maxcalls=2))
_add("Gen_C02_sim", "gen", "simulation: deeper histories",
     dict(lossvals=[-20, 3, 6], faultsat=ALL_FAULTS, restore=True, maxbatches=6, maxcalls=5, callsizes=[1, 2, 3], lineup=LU["ABA"]))
_add("Gen_C05", "gen", "every composition of <= 4 batches, each cut live or checkpoint/restore",
     dict(callsizes=[1, 2, 3, 4], maxbatches=4, maxcalls=4, restore=True))
_add("Gen_C09", "gen", "round robin over calls and restores, three samplers",
     dict(lineup=LU["ABA"], callsizes=[1, 2, 3], maxbatches=5, maxcalls=3, restore=True))
_add("Gen_C09_rl", "gen", "RL: every agent choice sequence",
     dict(lineup=LU["AB1"], kind="rl", callsizes=[1, 2, 3], maxbatches=4, maxcalls=2, savings=[False]))
_add("Gen_C09_rl3", "gen", "RL, no Halton, a class twice in the set",
     dict(lineup=LU["AA2B"], kind="rl", callsizes=[1, 2, 3], maxbatches=3, maxcalls=2, savings=[False]))
_add("Gen_C09_rl2", "gen", "RL with Halton in the set",
     dict(lineup=LU["HA"], kind="rl", callsizes=[1, 2], maxbatches=4, maxcalls=3, savings=[False]))
_add("Gen_C11", "gen", "fault at every invocation, round robin",
     dict(faultsat=ALL_FAULTS, callsizes=[1, 2, 3], maxbatches=4, maxcalls=2))
_add("Gen_C11_rl", "gen", "fault at every invocation, RL",
     dict(faultsat=ALL_FAULTS, kind="rl", lineup=LU["HA"], callsizes=[1, 2], maxbatches=3, maxcalls=2, savings=[False]))
_add("Gen_C14", "gen", "all loss scripts over {-20, 0, 6}",
     dict(convon=True, lossvals=[-20, 0, 6], callsizes=[1, 2, 3], maxbatches=4, maxcalls=2, lineup=LU["AB1"], E=1))
_add("Gen_C18", "gen", "set_samplers / restore / calls",
     dict(lineup=LU["AB1"], alts=ALT_C_BC, restore=True, callsizes=[1, 2], maxbatches=3, maxcalls=3, E=1))


def config(name: str) -> dict:
    c = dict(BASE)
    c.update(TABLE[name][2])
    if c.get("burn") is None:
        c["burn"] = len(c["lineup"])        # the code: one draw per sampler
    return c
