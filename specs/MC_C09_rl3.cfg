\* mc: C09 RL: a class twice in the set, Halton appended
CONSTANTS
  Configs <- Cfg_MC_C09_rl3
  BreakOnConverged = TRUE
  CkptBeforeBreak = TRUE
  SessionFinally = TRUE
  SeedOnlyAtZero = TRUE
  PersistTable = TRUE
  SeedsInParent = TRUE
INIT Init
NEXT Next
INVARIANT TypeOK
INVARIANT Aligned
INVARIANT Truthful
INVARIANT BatchesConsecutive
INVARIANT LabelNamesProducer
INVARIANT NoThreadLeft
INVARIANT RLBootstrap
INVARIANT BatchSizes
