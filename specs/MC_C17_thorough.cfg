CONSTANTS
  GridUniverse <- MCUniverse
  MaxLen = 5
  Values <- MCValues
  StepRule = "strict"
INIT Init
NEXT Next
INVARIANT TypeOK
INVARIANT IndexInRange
INVARIANT Nearest
INVARIANT MachineIsAlgo
INVARIANT Idempotent
