------------------------------ MODULE GridSnap ------------------------------
(***************************************************************************)
(* C17 - grid snapping (black_it/utils/base.py: get_closest, digitize_data) *)
(*                                                                         *)
(* The implementation is modelled step by step, the way the code does it:  *)
(*   Search   : idx := number of grid elements strictly smaller than v     *)
(*              (np.searchsorted(..., side = "left"))                      *)
(*   StepBack : idx := idx - 1  iff idx is past the end, or the previous   *)
(*              element is strictly closer than the element at idx         *)
(*   Return   : out := grid[idx]                                           *)
(* The property (IsNearest) does NOT mention the algorithm: any element of *)
(* minimal distance is acceptable (either neighbour at an exact mid-point).*)
(* Coordinates are integers; the harness scales dyadic floats so that the  *)
(* float arithmetic of the implementation is exact.                        *)
(***************************************************************************)
EXTENDS Integers, Sequences, FiniteSets

CONSTANTS GridUniverse,   \* set of admissible grid coordinates (model checking only)
          MaxLen,         \* largest grid explored
          Values,         \* set of values snapped
          StepRule        \* "strict" (the code) | "never" | "always"  -- design mutants for non-vacuity

VARIABLES grid, v, idx, out, phase
vars == <<grid, v, idx, out, phase>>

Abs(x) == IF x < 0 THEN -x ELSE x

(* strictly increasing sequences over a set *)
RECURSIVE SortedSeqs(_, _)
SortedSeqs(S, n) ==
  IF n = 0 THEN {<<>>}
  ELSE LET shorter == SortedSeqs(S, n - 1)
       IN  shorter \cup {Append(s, x) : s \in {t \in shorter : Len(t) = n - 1}, x \in S}

IsSorted(g)  == \A i \in 1..Len(g) - 1 : g[i] < g[i + 1]
Grids        == {g \in SortedSeqs(GridUniverse, MaxLen) : Len(g) >= 1 /\ IsSorted(g)}

(* ---- the property --------------------------------------------------------------------- *)
InGrid(g, o)        == \E i \in 1..Len(g) : g[i] = o
IsNearest(g, x, o)  == /\ InGrid(g, o)
                       /\ \A i \in 1..Len(g) : Abs(o - x) <= Abs(g[i] - x)

(* ---- the algorithm as a function (used by the trace spec to report drift, never to alarm) *)
SearchLeft(g, x)    == Cardinality({i \in 1..Len(g) : g[i] < x})          \* 0-based insertion index
Max2(a, b) == IF a > b THEN a ELSE b
Min2(a, b) == IF a < b THEN a ELSE b
PrevCloser(g, x, k) == Abs(x - g[Max2(k - 1, 0) + 1]) < Abs(x - g[Min2(k, Len(g) - 1) + 1])
AlgoIdx(g, x)       == LET k == SearchLeft(g, x)
                       IN  IF k = Len(g) \/ PrevCloser(g, x, k) THEN k - 1 ELSE k
Algo(g, x)          == g[AlgoIdx(g, x) + 1]

(* ---- the algorithm as a state machine ------------------------------------------------- *)
Init == /\ grid \in Grids
        /\ v \in Values
        /\ idx = -1
        /\ out = -1
        /\ phase = "start"

Search == /\ phase = "start"
          /\ idx' = SearchLeft(grid, v)
          /\ phase' = "searched"
          /\ UNCHANGED <<grid, v, out>>

StepBack == /\ phase = "searched"
            /\ LET back == CASE StepRule = "strict" -> idx = Len(grid) \/ PrevCloser(grid, v, idx)
                             [] StepRule = "never"  -> idx = Len(grid)
                             [] StepRule = "always" -> idx > 0
               IN idx' = IF back THEN idx - 1 ELSE idx
            /\ phase' = "adjusted"
            /\ UNCHANGED <<grid, v, out>>

Return == /\ phase = "adjusted"
          /\ out' = grid[idx + 1]
          /\ phase' = "done"
          /\ UNCHANGED <<grid, v, idx>>

Next == Search \/ StepBack \/ Return
Spec == Init /\ [][Next]_vars

(* constants for the exhaustive configuration (cfg files cannot hold negative numbers) *)
MCValues == -3..16
MCUniverse == {0, 2, 4, 6, 8, 10, 12}        \* doubled coordinates: odd values are exact mid-points

(* ---- properties checked by TLC on the design ------------------------------------------ *)
TypeOK        == phase \in {"start", "searched", "adjusted", "done"} /\ idx \in -1..Len(grid)
IndexInRange  == phase = "adjusted" => idx \in 0..Len(grid) - 1
Nearest       == phase = "done" => IsNearest(grid, v, out)
MachineIsAlgo == phase = "done" /\ StepRule = "strict" => out = Algo(grid, v)
Idempotent    == phase = "done" => Algo(grid, out) = out        \* snapping a grid element returns it
=============================================================================
