\* gen: fault at every invocation, round robin
CONSTANTS
  Configs <- Cfg_Gen_C11
  BreakOnConverged = TRUE
  CkptBeforeBreak = TRUE
  SessionFinally = TRUE
  SeedOnlyAtZero = TRUE
  PersistTable = TRUE
  SeedsInParent = TRUE
INIT GInit
NEXT GNext
CONSTRAINT Bound
INVARIANT Emit
