CONSTANTS
  NSessions = 3
  BatchChoices = {0, 1, 2, 3}
  Script <- Script3
  ExitOnFlag = FALSE
  LearnOnTerminal = TRUE
  DrainOnEnd = TRUE
  RewardTotal = TRUE
SPECIFICATION Spec
INVARIANT NoPhantomLearn
INVARIANT Attribution
INVARIANT AtMostOnce
INVARIANT LearnExactlyOnce
INVARIANT NoLeftover
INVARIANT TimingIndependent
PROPERTY Termination_
