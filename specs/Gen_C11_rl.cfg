\* gen: fault at every invocation, RL
CONSTANTS
  Configs <- Cfg_Gen_C11_rl
  BreakOnConverged = TRUE
  CkptBeforeBreak = TRUE
  SessionFinally = TRUE
  SeedOnlyAtZero = TRUE
  PersistTable = TRUE
  SeedsInParent = TRUE
INIT GInit
NEXT GNext
CONSTRAINT Bound
INVARIANT Emit
