\* gen: RL with Halton in the set
CONSTANTS
  Configs <- Cfg_Gen_C09_rl2
  BreakOnConverged = TRUE
  CkptBeforeBreak = TRUE
  SessionFinally = TRUE
  SeedOnlyAtZero = TRUE
  PersistTable = TRUE
  SeedsInParent = TRUE
INIT GInit
NEXT GNext
CONSTRAINT Bound
INVARIANT Emit
