-------------------------- MODULE SearchSpaceTrace --------------------------
(***************************************************************************)
(* Trace validation for C15: every SearchSpace(...) call of the harness is *)
(* one event                                                               *)
(*   case{nb, lo, up, pr, err, a, b, c, d, lens, firsts, lasts, even, size}*)
(* (values in integer units of the scale the harness used): err = class of *)
(* the exception raised or "none", a..d = its attributes (param index,     *)
(* offending values / lengths), and for accepted inputs the length, first  *)
(* and last element of every grid, whether it is evenly spaced, and the    *)
(* reported space size.  TLC compares with Validate / Grid / Size.         *)
(***************************************************************************)
EXTENDS SearchSpace, Json, IOUtils

Doc    == JsonDeserialize(IOEnv.TRACE_FILE)
Traces == Doc.traces
VARIABLES tid, l
T  == Traces[tid]
Ev == T[l]
More == l <= Len(T)

TInit == /\ tid \in 1..Len(Traces) /\ l = 1
         /\ inp = [nb |-> 2, lo |-> <<>>, up |-> <<>>, pr |-> <<>>] /\ pc = "done" /\ i = 1 /\ out = None

In(e) == [nb |-> e.nb, lo |-> e.lo, up |-> e.up, pr |-> e.pr]
ErrOK(e) == LET v == Validate(In(e)) IN e.err = v.err /\ e.a = v.a /\ e.b = v.b /\ e.c = v.c /\ e.d = v.d
GridOK(e) == e.err = "none" =>
               /\ Len(e.lens) = Len(e.lo)
               /\ \A j \in 1..Len(e.lo) :
                    /\ e.lens[j] = GridLen(e.lo[j], e.up[j], e.pr[j])
                    /\ e.firsts[j] = e.lo[j]
                    /\ e.lasts[j] = e.lo[j] + (GridLen(e.lo[j], e.up[j], e.pr[j]) - 1) * e.pr[j]
               /\ e.even
SizeOK(e) == e.err = "none" => e.sizeok

Step == /\ More /\ Ev.e = "case"
        /\ ErrOK(Ev) /\ GridOK(Ev) /\ SizeOK(Ev)
        /\ l' = l + 1 /\ UNCHANGED <<tid, vars>>

Why == IF ~More THEN "end"
       ELSE IF ~ErrOK(Ev) THEN <<"validation outcome differs from the documented table", Validate(In(Ev)).err>>
       ELSE IF ~GridOK(Ev) THEN <<"grid differs from lower, lower+precision, ... (last step not beyond upper)", "grid">>
       ELSE <<"space_size is not the product of the grid lengths", "size">>
Report == /\ (l = Len(T) + 1 => PrintT(<<"OK", tid>>))
          /\ (More /\ ~ENABLED Step => PrintT(<<"STUCK", tid, l, Why>>))
=============================================================================
