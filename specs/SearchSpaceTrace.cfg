CONSTANTS
  Vals = {}
  MaxD = 0
  Order = "documented"
INIT TInit
NEXT Step
CONSTRAINT Report
