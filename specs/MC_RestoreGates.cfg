CONSTANTS
  Models = {"m1", "m2"}
  Versions = {0, 1, 2}
  CodeVersion = 1
  GateOrder = "schema-first"
SPECIFICATION Spec
INVARIANT NeverWrongModel
INVARIANT NeverWrongSchema
INVARIANT NoSpuriousRefusal
INVARIANT RefusalNamesAGateThatFails
