CONSTANTS
  ExitOnFlag = FALSE
  LearnOnTerminal = FALSE
  DrainOnEnd = TRUE
SPECIFICATION Spec
INVARIANT NoPhantomLearn
INVARIANT NoStaleAction
INVARIANT Attribution
INVARIANT NothingLost
INVARIANT NoLeftover
INVARIANT AllLearned
INVARIANT QueuesBounded
PROPERTY GetsAnAction
PROPERTY JoinReturns
