\* gen: C02/C04: calls, faults, restores; two loss values
CONSTANTS
  Configs <- Cfg_Gen_C02
  BreakOnConverged = TRUE
  CkptBeforeBreak = TRUE
  SessionFinally = TRUE
  SeedOnlyAtZero = TRUE
  PersistTable = TRUE
  SeedsInParent = TRUE
INIT GInit
NEXT GNext
CONSTRAINT Bound
INVARIANT Emit
