----------------------------- MODULE Observable -----------------------------
(***************************************************************************)
(* C01 / C05 on line-ups of built-in samplers: the observable outcome of a *)
(* calibration (per-batch history rows, returned arrays) is a *function*   *)
(* of configuration and seed.  A trace lists, for one configuration, the   *)
(* observations of several executions that Calibration.tla declares        *)
(* observationally equal (ObservableIsRef): variants in the axes C01 calls *)
(* irrelevant (n_jobs, verbosity, saving folder, constructor seeds), or -  *)
(* for C05 - different ways of cutting the same n batches into calibrate() *)
(* calls with live or checkpoint/restore boundaries.                       *)
(*   variant{axes}      a new execution of the same configuration starts   *)
(*   obs{k, h}          observation: key k ("batch:3", "ret", "rows") has  *)
(*                      the exact projection h (SHA-256 prefix of bytes)   *)
(*   crash{what}        the execution raised                               *)
(* The specification keeps the first projection seen for every key; an     *)
(* observation that differs from it has no enabled action.                 *)
(***************************************************************************)
EXTENDS Integers, Sequences, FiniteSets, TLC, Json, IOUtils

Doc    == JsonDeserialize(IOEnv.TRACE_FILE)
Traces == Doc.traces

VARIABLES tid, l, seen, variant
vars == <<tid, l, seen, variant>>

T  == Traces[tid]
Ev == T.ev[l]
More == l <= Len(T.ev)

Init == /\ tid \in 1..Len(Traces) /\ l = 1 /\ seen = [k \in {} |-> ""] /\ variant = "none"

Variant == /\ More /\ Ev.e = "variant"
           /\ variant' = Ev.axes
           /\ l' = l + 1 /\ UNCHANGED <<tid, seen>>

Consistent(k, h) == k \in DOMAIN seen => seen[k] = h

Observe == /\ More /\ Ev.e = "obs"
           /\ Consistent(Ev.k, Ev.h)                          \* single-valued: same key, same projection
           /\ seen' = IF Ev.k \in DOMAIN seen THEN seen ELSE seen @@ (Ev.k :> Ev.h)
           /\ l' = l + 1 /\ UNCHANGED <<tid, variant>>

Next == Variant \/ Observe

(* the property as an invariant of the rebuilt state: one projection per key *)
SingleValued == \A k \in DOMAIN seen : \A j \in 1..(l - 1) :
                   (T.ev[j].e = "obs" /\ T.ev[j].k = k) => T.ev[j].h = seen[k]

Why == IF ~More THEN "end"
       ELSE IF Ev.e = "obs" THEN <<"observable differs between equivalent executions", Ev.k, variant>>
       ELSE IF Ev.e = "crash" THEN <<"execution raised", variant>>
       ELSE <<"event not explained", variant>>

Report == /\ (l = Len(T.ev) + 1 => PrintT(<<"OK", tid>>))
          /\ (More /\ ~ENABLED Next => PrintT(<<"STUCK", tid, l, Why>>))
          /\ (SingleValued \/ PrintT(<<"BAD", tid, l, "SingleValued">>))
=============================================================================
