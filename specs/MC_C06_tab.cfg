CONSTANTS
  Runs = {"A", "B"}
  Shared = {"A2"}
  MaxRows = 2
  MaxSaves = 2
  AppendInPlace = "prefix"
  Crashes = TRUE
  CrossCheck = FALSE
  SqlDeleteInTxn = TRUE
INIT Init
NEXT Next
INVARIANT Tabulate
