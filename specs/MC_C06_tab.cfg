CONSTANTS
  Runs = {"A", "B"}
  MaxRows = 2
  MaxSaves = 2
  AppendInPlace = FALSE
  Crashes = TRUE
  CrossCheck = FALSE
  SqlDeleteInTxn = TRUE
INIT Init
NEXT Next
INVARIANT Tabulate
