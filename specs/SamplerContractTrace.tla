------------------------ MODULE SamplerContractTrace ------------------------
(***************************************************************************)
(* Trace validation for C03 / C16: every sample() call of a built-in       *)
(* sampler made by the harness, in doubled grid units (coordinate = 2 x    *)
(* index in param_grid, -1 when the float is not an element of the grid).  *)
(*   sample{cls, bs, g, rem, rows, cols, idx, inbounds, histsame}          *)
(*        inbounds: every coordinate within the declared bounds (1e-7)     *)
(*   bestbatch{bs, range, g, rem, hist, rank, out}    history points,      *)
(*        dense loss ranks, proposals                                      *)
(*   select{bs, preds, sel, fitsame, predictsame}   surrogate: prediction  *)
(*        rank of every pool candidate, ranks of the returned candidates,  *)
(*        fit received exactly the history, predict exactly the pool       *)
(***************************************************************************)
EXTENDS SamplerContract, Json, IOUtils

Doc    == JsonDeserialize(IOEnv.TRACE_FILE)
Traces == Doc.traces
VARIABLES tid, l
T  == Traces[tid]
Ev == T[l]
More == l <= Len(T)

TInit == /\ tid \in 1..Len(Traces) /\ l = 1
         /\ G = 2 /\ rem = 0 /\ parent = 0 /\ shock = 0 /\ out = -1 /\ phase = "trace" /\ pool = <<>> /\ chosen = {} /\ bsz = 0

Shape(e) == e.rows = e.bs /\ e.cols = Len(e.g) /\ Len(e.idx) = e.rows
OnGridEv(e) == \A r \in 1..Len(e.idx) : /\ Len(e.idx[r]) = Len(e.g)
                                         /\ \A d \in 1..Len(e.g) : e.idx[r][d] \in Admissible(e.g[d])
Untouched(e) == e.histsame

(* best batch: some parent among the points whose loss is not larger than the batch_size-th smallest, shocked on >= 1 coordinate *)
Kth(rank, k) == CHOOSE v \in {rank[i] : i \in 1..Len(rank)} :
                   /\ Cardinality({i \in 1..Len(rank) : rank[i] < v}) < k
                   /\ Cardinality({i \in 1..Len(rank) : rank[i] <= v}) >= k
Best(e) == {i \in 1..Len(e.hist) : e.rank[i] <= Kth(e.rank, e.bs)}
RowOK(e, o) == \E p \in Best(e) :
                  /\ \A d \in 1..Len(e.g) : Reach(e.hist[p][d], o[d], e.g[d], e.rem[d], e.range) # {}
                  /\ \E d \in 1..Len(e.g) : Reach(e.hist[p][d], o[d], e.g[d], e.rem[d], e.range) \ {0} # {}
BestBatchOK(e) == Len(e.out) = e.bs /\ \A r \in 1..Len(e.out) : RowOK(e, e.out[r])

CountV(sq, v) == Cardinality({i \in 1..Len(sq) : sq[i] = v})
Below(sq, v) == Cardinality({i \in 1..Len(sq) : sq[i] < v})
Min2(a, b) == IF a < b THEN a ELSE b
Max0(a) == IF a < 0 THEN 0 ELSE a
SelectOK(e) == /\ e.fitsame /\ e.predictsame
               /\ Len(e.sel) = e.bs
               /\ \A v \in {e.preds[i] : i \in 1..Len(e.preds)} \cup {e.sel[i] : i \in 1..Len(e.sel)} :
                     CountV(e.sel, v) = Min2(CountV(e.preds, v), Max0(e.bs - Below(e.preds, v)))

(* clip{cls, kinds, outs, inputsame}: the float32 clipping of the loss history by the XGBoost sampler, entry by entry:
     kinds[i] in {"in", "over", "under"} (inside the float32 range / at or above its maximum / at or below its minimum);
     outs[i]  in {"same", "top", "bottom", "other"} (bit-equal to the input / a finite value of the same sign just inside the limit)
   entries inside the range come back unchanged, the others just inside their own limit, and the caller's array is left alone *)
ClipOK(e) == /\ e.inputsame
             /\ Len(e.kinds) = Len(e.outs)
             /\ \A i \in 1..Len(e.kinds) :
                   CASE e.kinds[i] = "in" -> e.outs[i] = "same"
                     [] e.kinds[i] = "over" -> e.outs[i] = "top"
                     [] e.kinds[i] = "under" -> e.outs[i] = "bottom"
                     [] OTHER -> FALSE

EvOK(e) == CASE e.e = "sample" -> Shape(e) /\ OnGridEv(e) /\ e.inbounds /\ Untouched(e)
             [] e.e = "clip" -> ClipOK(e)
             [] e.e = "bestbatch" -> BestBatchOK(e)
             [] e.e = "select" -> SelectOK(e)
             [] OTHER -> FALSE
Step == /\ More /\ EvOK(Ev) /\ l' = l + 1 /\ UNCHANGED <<tid, vars>>
Why == IF ~More THEN "end"
       ELSE CASE Ev.e = "sample" /\ ~Shape(Ev) -> "shape"
              [] Ev.e = "sample" /\ ~OnGridEv(Ev) -> "offgrid"
              [] Ev.e = "sample" /\ ~Ev.inbounds -> "out-of-bounds"
              [] Ev.e = "sample" -> "history-modified"
              [] Ev.e = "clip" -> "float32-clipping"
              [] Ev.e = "bestbatch" -> "bestbatch-descent"
              [] Ev.e = "select" /\ ~(Ev.fitsame /\ Ev.predictsame) -> "surrogate-inputs"
              [] Ev.e = "select" -> "surrogate-selection"
              [] OTHER -> "unexplained"
Report == /\ (l = Len(T) + 1 => PrintT(<<"OK", tid>>))
          /\ (More /\ ~EvOK(Ev) => PrintT(<<"STUCK", tid, l, Why>>))
=============================================================================
