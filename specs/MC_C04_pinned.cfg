CONSTANTS
  Runs = {"A", "B"}
  Shared = {"A2"}
  MaxRows = 2
  MaxSaves = 3
  AppendInPlace = "always"
  Crashes = FALSE
  CrossCheck = FALSE
  SqlDeleteInTxn = TRUE
INIT Init
NEXT Next
INVARIANT RestoreEqualsSaved
