CONSTANTS
  Runs = {"A", "B"}
  MaxRows = 2
  MaxSaves = 3
  AppendInPlace = TRUE
  Crashes = FALSE
  CrossCheck = FALSE
  SqlDeleteInTxn = TRUE
INIT Init
NEXT Next
INVARIANT RestoreEqualsSaved
