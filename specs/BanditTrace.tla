----------------------------- MODULE BanditTrace -----------------------------
(***************************************************************************)
(* Trace validation for C19 on the real MABEpsilonGreedy / MABCalibrationEnv*)
(* A trace = one agent (+ one environment) driven through a sequence of    *)
(*   init{n, alpha, q0, ref}     construction (alpha <<-1,1>> = sentinel)  *)
(*   learn{a, r, q, cnt, close}  after learn(action a, reward r): all      *)
(*                               estimates q (rationals recovered from the *)
(*                               floats; close = each float is within      *)
(*                               1e-12 of its rational) and counts         *)
(*   reward{best, r, refafter, close}   get_reward(best loss) returned r   *)
(*   policy{a, eps0, twin}       policy() returned a; eps0: epsilon = 0;   *)
(*                               twin: what an identical agent (same seed, *)
(*                               same rewards) returned, -1 if none        *)
(* Learn / Observe of Bandit.tla explain the events with the logged fields *)
(* bound to Q, count, ref.                                                 *)
(***************************************************************************)
EXTENDS Bandit, Json, IOUtils

Doc    == JsonDeserialize(IOEnv.TRACE_FILE)
Traces == Doc.traces
VARIABLES tid, l, alpha, n
T  == Traces[tid]
Ev == T[l]
More == l <= Len(T)
Acts == 0..n - 1

TInit == /\ tid \in 1..Len(Traces) /\ l = 1 /\ alpha = Zero /\ n = 0
         /\ Q = <<>> /\ count = <<>> /\ ref = Zero /\ t = 0 /\ lastReward = Zero /\ rsum = <<>>

R(x) == <<x[1], x[2]>>
Step(a, c) == IF alpha = Sentinel THEN <<1, c[a]>> ELSE alpha

TStep ==
  /\ More /\ l' = l + 1 /\ UNCHANGED tid
  /\ CASE Ev.e = "init" ->
            /\ n' = Ev.n /\ alpha' = R(Ev.alpha)
            /\ Q' = [a \in 0..Ev.n - 1 |-> Norm(R(Ev.q0))] /\ count' = [a \in 0..Ev.n - 1 |-> 0]
            /\ rsum' = [a \in 0..Ev.n - 1 |-> Zero]
            /\ ref' = Norm(R(Ev.ref)) /\ t' = 0 /\ lastReward' = Zero
       [] Ev.e = "learn" ->
            /\ Ev.a \in Acts
            /\ count' = [count EXCEPT ![Ev.a] = @ + 1]
            /\ Q' = [Q EXCEPT ![Ev.a] = RAdd(@, RMul(Step(Ev.a, count'), RSub(Norm(R(Ev.r)), @)))]      \* the published update rule
            /\ \A a \in Acts : Norm(R(Ev.q[a + 1])) = Q'[a] /\ Ev.cnt[a + 1] = count'[a]                 \* = what the real agent holds
            /\ Ev.close
            /\ rsum' = [rsum EXCEPT ![Ev.a] = RAdd(@, Norm(R(Ev.r)))]
            /\ t' = t + 1 /\ UNCHANGED <<ref, lastReward, alpha, n>>
       [] Ev.e = "reward" ->
            /\ lastReward' = RewardOf(Norm(R(Ev.best)), ref)
            /\ Norm(R(Ev.r)) = lastReward'
            /\ ref' = IF RLess(Norm(R(Ev.best)), ref) THEN Norm(R(Ev.best)) ELSE ref
            /\ Norm(R(Ev.refafter)) = ref'
            /\ Ev.close
            /\ t' = t + 1 /\ UNCHANGED <<Q, count, rsum, alpha, n>>
       [] Ev.e = "policy" ->
            /\ Ev.a \in Acts                                                   \* only valid action indices
            /\ (Ev.eps0 => \A b \in Acts : RLeq(Q[b], Q[Ev.a]))                \* epsilon 0: an action of maximal estimate
            /\ (Ev.twin # -1 => Ev.a = Ev.twin)                                \* deterministic function of seed and rewards
            /\ UNCHANGED <<Q, count, ref, t, lastReward, rsum, alpha, n>>
       [] OTHER -> FALSE

Why == IF ~More THEN "end"
       ELSE IF Ev.e = "learn" THEN "estimates or counts after learn() differ from the published update rule"
       ELSE IF Ev.e = "reward" THEN "reward / reference loss differ from the relative-improvement rule"
       ELSE IF Ev.e = "policy" THEN "policy(): invalid index, non-maximal action with epsilon 0, or not reproducible"
       ELSE "event not explained"
Report == /\ (l = Len(T) + 1 => PrintT(<<"OK", tid>>))
          /\ (More /\ ~ENABLED TStep => PrintT(<<"STUCK", tid, l, Why>>))
=============================================================================
