\* gen: simulation: deeper histories
CONSTANTS
  Configs <- Cfg_Gen_C02_sim
  BreakOnConverged = TRUE
  CkptBeforeBreak = TRUE
  SessionFinally = TRUE
  SeedOnlyAtZero = TRUE
  PersistTable = TRUE
  SeedsInParent = TRUE
INIT GInit
NEXT GNext
CONSTRAINT Bound
INVARIANT Emit
