---------------------------- MODULE MC_Checkpoint ----------------------------
EXTENDS Checkpoint
(* tabulation of the predicted outcome of a restore for every crash point (read by the conformance harness) *)
Before == IF prev = <<>> THEN "empty"
          ELSE IF prev[1].run = mem[1].run THEN "same-run"
          ELSE IF prev[1].rows < mem[1].rows THEN "other-run-fewer"
          ELSE IF prev[1].rows = mem[1].rows THEN "other-run-equal" ELSE "other-run-more"
Sub == IF at = "m_csv" /\ folder["csv"].st \in {"partial", "garbled"} THEN <<"partial", folder["csv"].rows, folder["csv"].cut>>
       ELSE IF at \in {"m_params", "m_sched", "m_loss"} /\ folder[FileOf(at)].st = "partial" THEN <<"partial", 0, FALSE>>
       ELSE IF at = "w_h5" /\ folder["h5"].st = "partial" THEN <<"partial", 0, FALSE>>
       ELSE IF at = "w_h5" /\ \E i \in 1..Len(folder["h5"].tags) : folder["h5"].tags[i] = <<"zero", 0>> THEN <<"resized", 0, FALSE>>
       ELSE <<"clean", 0, FALSE>>
Tabulate == pc = "crashed" => PrintT(<<"CP", Before, at, Sub, mem[1].rows, Outcome>>)
=============================================================================
