CONSTANTS
  Vals <- V6
  MaxD = 2
  Order = "documented"
INIT Init
NEXT Next
INVARIANT MachineMatchesTable
INVARIANT GridLaw
