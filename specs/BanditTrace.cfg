CONSTANTS
  NActions = 0
  Alpha = 0
  Rewards = {}
  Losses = {}
  MaxSteps = 0
  StepRule = "published"
INIT TInit
NEXT TStep
CONSTRAINT Report
