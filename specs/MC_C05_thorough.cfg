\* mc: C05 thorough: 5 batches, three samplers
CONSTANTS
  Configs <- Cfg_MC_C05_thorough
  BreakOnConverged = TRUE
  CkptBeforeBreak = TRUE
  SessionFinally = TRUE
  SeedOnlyAtZero = TRUE
  PersistTable = TRUE
  SeedsInParent = TRUE
INIT Init
NEXT Next
INVARIANT TypeOK
INVARIANT Aligned
INVARIANT Truthful
INVARIANT BatchesConsecutive
INVARIANT LabelNamesProducer
INVARIANT NoThreadLeft
INVARIANT ObservableIsRef
INVARIANT NoCtorRoot
PROPERTY AppendOnly
