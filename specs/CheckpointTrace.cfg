CONSTANTS
  Runs = {"A", "B"}
  Shared = {"A2"}
  MaxRows = 0
  MaxSaves = 0
  AppendInPlace = "prefix"
  Crashes = TRUE
  CrossCheck = FALSE
  SqlDeleteInTxn = TRUE
INIT TInit
NEXT Step
CONSTRAINT Report
