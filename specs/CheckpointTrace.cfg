CONSTANTS
  Runs = {"A", "B"}
  MaxRows = 0
  MaxSaves = 0
  AppendInPlace = FALSE
  Crashes = TRUE
  CrossCheck = FALSE
  SqlDeleteInTxn = TRUE
INIT TInit
NEXT Step
CONSTRAINT Report
