\* gen: round robin over calls and restores, three samplers
CONSTANTS
  Configs <- Cfg_Gen_C09
  BreakOnConverged = TRUE
  CkptBeforeBreak = TRUE
  SessionFinally = TRUE
  SeedOnlyAtZero = TRUE
  PersistTable = TRUE
  SeedsInParent = TRUE
INIT GInit
NEXT GNext
CONSTRAINT Bound
INVARIANT Emit
