--------------------------- MODULE RestoreGates ---------------------------
(***************************************************************************)
(* Growth beyond the listed properties: the two gates a restore passes      *)
(* before any state is handed back.                                         *)
(*   model gate   Calibrator.restore_from_checkpoint (calibrator.py):       *)
(*                the stored model name must equal model.__name__           *)
(*   schema gate  sqlite3_checkpointing.load_calibrator_state: the file's   *)
(*                PRAGMA user_version must equal SCHEMA_VERSION             *)
(* A request is (back-end, stored model, given model, stored version, code  *)
(* version); the outcome is an object, or a refusal naming the gate.  The   *)
(* schema gate is evaluated first (it sits in the loader), the JSON/pandas  *)
(* back-end has no schema gate.                                             *)
(***************************************************************************)
EXTENDS Naturals

CONSTANTS Models, Versions, CodeVersion,
          GateOrder        \* "schema-first" (the code) | "model-first" (a variant: same accept set, another refusal for double mismatches)

VARIABLES req, out
vars == <<req, out>>

Requests == [b : {"json", "sqlite"}, stored : Models, given : Models, ver : Versions]

SchemaOK(r) == r.b = "json" \/ r.ver = CodeVersion
ModelOK(r)  == r.stored = r.given

Decide(r) ==
  IF GateOrder = "schema-first"
  THEN IF ~SchemaOK(r) THEN "refused:schema" ELSE IF ~ModelOK(r) THEN "refused:model" ELSE "object"
  ELSE IF ~ModelOK(r) THEN "refused:model" ELSE IF ~SchemaOK(r) THEN "refused:schema" ELSE "object"

Init == req \in Requests /\ out = "pending"
Restore == out = "pending" /\ out' = Decide(req) /\ UNCHANGED req
Next == Restore \/ (out # "pending" /\ UNCHANGED vars)
Spec == Init /\ [][Next]_vars

(* what a user relies on, whatever the order of the gates *)
NeverWrongModel   == out = "object" => ModelOK(req)
NeverWrongSchema  == out = "object" => SchemaOK(req)
NoSpuriousRefusal == out \in {"refused:schema", "refused:model"} => ~(SchemaOK(req) /\ ModelOK(req))
RefusalNamesAGateThatFails ==
  /\ (out = "refused:schema" => ~SchemaOK(req))
  /\ (out = "refused:model" => ~ModelOK(req))
=============================================================================
