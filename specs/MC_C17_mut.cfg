CONSTANTS
  GridUniverse <- MCUniverse
  MaxLen = 4
  Values <- MCValues
  StepRule = "never"
INIT Init
NEXT Next
INVARIANT TypeOK
INVARIANT IndexInRange
INVARIANT Nearest
INVARIANT MachineIsAlgo
INVARIANT Idempotent
