INIT Init
NEXT Next
CONSTRAINT Report
