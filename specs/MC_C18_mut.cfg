\* mut: pinned design: table not persisted -> labels of a restored run name the wrong class
CONSTANTS
  Configs <- Cfg_MC_C18_mut
  BreakOnConverged = TRUE
  CkptBeforeBreak = TRUE
  SessionFinally = TRUE
  SeedOnlyAtZero = TRUE
  PersistTable = FALSE
  SeedsInParent = TRUE
INIT Init
NEXT Next
INVARIANT RecoverableFromDisk
