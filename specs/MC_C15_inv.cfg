CONSTANTS
  Vals <- V4
  MaxD = 2
  Order = "inverted-first"
INIT Init
NEXT Next
INVARIANT MachineMatchesTable
INVARIANT GridLaw
