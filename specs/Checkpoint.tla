------------------------------ MODULE Checkpoint ------------------------------
(***************************************************************************)
(* C04 / C06 - the JSON-CSV-HDF5 checkpoint folder                          *)
(* (black_it/utils/json_pandas_checkpointing.py) and the SQLite back-end    *)
(* (black_it/utils/sqlite3_checkpointing.py).                               *)
(*                                                                         *)
(* A calibrator state is identified by [run, rows]: which calibration it   *)
(* belongs to and how many history rows it holds; two states of the same   *)
(* run share their common prefix of rows (history is append-only, C02).    *)
(*                                                                         *)
(* JSON back-end: the folder is five files written in a fixed order,       *)
(*   params (counters, generator state)  ->  sched (pickle)  ->  loss      *)
(*   (pickle)  ->  csv (parameters, losses, labels)  ->  h5 (series)       *)
(* each of the first four truncated on open and rewritten; the series file *)
(* is (pinned code) opened in append mode when it exists and extended in   *)
(* place from the row count found on disk.  A Crash may strike before,     *)
(* inside or after every file operation.  Load performs no cross-file      *)
(* check (pinned) or refuses a folder whose files disagree (CrossCheck).   *)
(*                                                                         *)
(* SQLite back-end: PRAGMA user_version; executescript(CREATE IF NOT       *)
(* EXISTS; DELETE) - which commits -; INSERT; COMMIT, with ROLLBACK on an  *)
(* exception (pinned), or DELETE inside the INSERT transaction (repaired). *)
(***************************************************************************)
EXTENDS Integers, Sequences, FiniteSets, TLC

CONSTANTS Runs,            \* calibrations that may use the folder, e.g. {"A", "B"}
          MaxRows,         \* history sizes 0..MaxRows
          MaxSaves,        \* number of saves explored
          Shared,          \* runs whose history equals that of run "A" except for its first row (two runs may share rows without
                           \* one being a prefix of the other)
          AppendInPlace,   \* "always": pinned series-file logic (extend whatever the file holds from the row count on disk)
                           \* "prefix": extend only when the stored rows are exactly a prefix of the rows being saved, else rewrite
                           \* "lastrow": extend when the last stored row equals the row at the same index (an unsound shortcut)
          Crashes,         \* BOOLEAN: a save may be interrupted
          CrossCheck,      \* BOOLEAN: load verifies that all five files describe the same state (a sound repair; not the pinned code)
          SqlDeleteInTxn   \* TRUE: repaired SQLite save;  FALSE: pinned (DELETE committed by executescript)

VARIABLES folder,   \* file name -> content descriptor
          pc,       \* "idle" | "w_params" | ... | "crashed"   (position of the save in progress)
          mem,      \* the state being saved
          prev,     \* the last completely saved state (<<>> if none)
          nsaves,
          sql,      \* SQLite: [row : <<>> | <<state>>, txn : "none" | "open", pending : the uncommitted table content]
          sqlpc, sqlprev, sqlfailed,
          at        \* where the interrupted save was when the process died (for the tabulation of predicted outcomes)
vars == <<folder, pc, mem, prev, nsaves, sql, sqlpc, sqlprev, sqlfailed, at>>

FileNames == {"params", "sched", "loss", "csv", "h5"}
States == [run : Runs, rows : 0..MaxRows]
Absent == [st |-> "absent", run |-> "-", rows |-> 0, cut |-> FALSE, tags |-> <<>>]
(* identity of the i-th history row of a run *)
RowId(r, i) == IF r \in Shared /\ i > 1 THEN <<"A", i>> ELSE <<r, i>>
RowsOf(s) == [i \in 1..s.rows |-> RowId(s.run, i)]
Full(f, s) == [st |-> "full", run |-> s.run, rows |-> s.rows, cut |-> FALSE,
               tags |-> IF f = "h5" THEN RowsOf(s) ELSE <<>>]

Init == /\ folder = [f \in FileNames |-> Absent]
        /\ pc = "idle" /\ mem = <<>> /\ prev = <<>> /\ nsaves = 0
        /\ sql = [row |-> <<>>, txn |-> "none", pending |-> <<>>] /\ sqlpc = "idle" /\ sqlprev = <<>> /\ sqlfailed = FALSE /\ at = "-"

(* ---- JSON back-end ------------------------------------------------------------------------------ *)
BeginSave(s) == /\ pc = "idle" /\ sqlpc = "idle" /\ nsaves < MaxSaves
                /\ mem' = <<s>> /\ pc' = "w_params" /\ nsaves' = nsaves + 1
                /\ UNCHANGED <<folder, prev, sql, sqlpc, sqlprev, sqlfailed, at>>

NextPc(p) == CASE p = "m_params" -> "w_sched" [] p = "m_sched" -> "w_loss" [] p = "m_loss" -> "w_csv" [] p = "m_csv" -> "w_h5"
FileOf(p) == CASE p \in {"w_params", "m_params"} -> "params" [] p \in {"w_sched", "m_sched"} -> "sched"
               [] p \in {"w_loss", "m_loss"} -> "loss" [] p \in {"w_csv", "m_csv"} -> "csv" [] p = "w_h5" -> "h5"
Mid(p) == CASE p = "w_params" -> "m_params" [] p = "w_sched" -> "m_sched" [] p = "w_loss" -> "m_loss" [] p = "w_csv" -> "m_csv"

(* open(..., "w"): the file is truncated before anything is written *)
Truncate == /\ pc \in {"w_params", "w_sched", "w_loss", "w_csv"}
            /\ folder' = [folder EXCEPT ![FileOf(pc)] = [Absent EXCEPT !.st = "trunc", !.run = mem[1].run]]
            /\ pc' = Mid(pc)
            /\ UNCHANGED <<mem, prev, nsaves, sql, sqlpc, sqlprev, sqlfailed, at>>

(* the write completes *)
Finish == /\ pc \in {"m_params", "m_sched", "m_loss", "m_csv"}
          /\ folder' = [folder EXCEPT ![FileOf(pc)] = Full(FileOf(pc), mem[1])]
          /\ pc' = NextPc(pc)
          /\ UNCHANGED <<mem, prev, nsaves, sql, sqlpc, sqlprev, sqlfailed, at>>

(* the series file *)
IsPrefixOf(a, b) == Len(a) <= Len(b) /\ \A i \in 1..Len(a) : a[i] = b[i]
Extend(old, s) == [old EXCEPT !.tags = IF s.rows > Len(old.tags) THEN old.tags \o [i \in 1..(s.rows - Len(old.tags)) |-> RowId(s.run, Len(old.tags) + i)]
                                       ELSE old.tags,                                     \* nothing is ever removed
                              !.rows = IF s.rows > Len(old.tags) THEN s.rows ELSE Len(old.tags)]
H5New(old, s) ==
  IF old.st # "full" THEN Full("h5", s)                                                    \* created from scratch
  ELSE CASE AppendInPlace = "always" -> Extend(old, s)
         [] AppendInPlace = "prefix" -> IF IsPrefixOf(old.tags, RowsOf(s)) THEN Extend(old, s) ELSE Full("h5", s)
         [] AppendInPlace = "lastrow" ->
              IF Len(old.tags) <= s.rows /\ (Len(old.tags) = 0 \/ old.tags[Len(old.tags)] = RowId(s.run, Len(old.tags)))
                THEN Extend(old, s) ELSE Full("h5", s)
WriteH5 == /\ pc = "w_h5"
           /\ folder' = [folder EXCEPT !["h5"] = H5New(folder["h5"], mem[1])]
           /\ pc' = "done"
           /\ UNCHANGED <<mem, prev, nsaves, sql, sqlpc, sqlprev, sqlfailed, at>>

EndSave == /\ pc = "done"
           /\ prev' = mem /\ mem' = <<>> /\ pc' = "idle"
           /\ UNCHANGED <<folder, nsaves, sql, sqlpc, sqlprev, sqlfailed, at>>

(* the process dies: between two file operations, after a truncation, or in the middle of a write *)
Crash == /\ Crashes
         /\ pc \notin {"idle", "crashed", "done"}
         /\ \/ UNCHANGED folder                                                            \* between operations / right after truncation
            \/ /\ pc \in {"m_params", "m_sched", "m_loss"}                                  \* mid-write of an opaque file
               /\ folder' = [folder EXCEPT ![FileOf(pc)].st = "partial"]
            \/ /\ pc = "m_csv"                                                              \* mid-write of the record file: k complete
               /\ \E k \in 0..mem[1].rows : \E c \in BOOLEAN : \E garbled \in BOOLEAN :         \* records, possibly one more cut mid-field
                    /\ k + (IF c THEN 1 ELSE 0) <= mem[1].rows
                    /\ garbled => c                   \* a record cut inside a field may or may not still parse (observed on the real parser)
                    /\ folder' = [folder EXCEPT !["csv"] = [st |-> IF garbled THEN "garbled" ELSE "partial", run |-> mem[1].run,
                                                             rows |-> k, cut |-> c, tags |-> <<>>]]
            \/ /\ pc = "w_h5"                                                               \* the dataset was resized but not filled
               /\ folder["h5"].st = "full" /\ mem[1].rows > Len(folder["h5"].tags)
               /\ folder' = [folder EXCEPT !["h5"].tags = @ \o [i \in 1..(mem[1].rows - Len(@)) |-> <<"zero", 0>>], !["h5"].rows = mem[1].rows]
            \/ /\ pc = "w_h5" /\ folder["h5"].st # "full"                                   \* creation interrupted
               /\ folder' = [folder EXCEPT !["h5"].st = "partial"]
         /\ pc' = "crashed" /\ at' = pc
         /\ UNCHANGED <<mem, prev, nsaves, sql, sqlpc, sqlprev, sqlfailed>>

(* what load_calibrator_state returns *)
Unreadable(f) == folder[f].st \in {"absent", "trunc", "garbled"} \/ (f # "csv" /\ folder[f].st = "partial")
Components == [params |-> <<folder["params"].run, folder["params"].rows>>,
               sched  |-> <<folder["sched"].run, folder["sched"].rows>>,
               loss   |-> <<folder["loss"].run, folder["loss"].rows>>,
               csv    |-> <<folder["csv"].run, folder["csv"].rows, folder["csv"].cut>>,
               h5     |-> folder["h5"].tags]
Whole(s) == [params |-> <<s.run, s.rows>>, sched |-> <<s.run, s.rows>>, loss |-> <<s.run, s.rows>>,
             csv |-> <<s.run, s.rows, FALSE>>, h5 |-> RowsOf(s)]
Agree == \E s \in States : Components = Whole(s)
Error == [error |-> TRUE]           \* (a record, so that it can be compared with a loaded state)
Load == IF \E f \in FileNames : Unreadable(f) THEN Error
        ELSE IF CrossCheck /\ ~Agree THEN Error
        ELSE Components

(* ---- SQLite back-end ---------------------------------------------------------------------------- *)
SqlBegin(s) == /\ sqlpc = "idle" /\ nsaves < MaxSaves /\ pc = "idle"
               /\ mem' = <<s>> /\ sqlpc' = "pragma" /\ nsaves' = nsaves + 1 /\ sqlfailed' = FALSE
               /\ UNCHANGED <<folder, pc, prev, sql, sqlprev, at>>
SqlStep ==
  /\ sqlpc \in {"pragma", "script", "insert", "commit"}
  /\ CASE sqlpc = "pragma" -> sql' = sql /\ sqlpc' = "script"
       [] sqlpc = "script" ->                       \* CREATE TABLE IF NOT EXISTS; [DELETE FROM checkpoint;] - executescript commits
            /\ sql' = IF SqlDeleteInTxn THEN sql ELSE [sql EXCEPT !.row = <<>>]
            /\ sqlpc' = "insert"
       [] sqlpc = "insert" ->                       \* implicit BEGIN; [DELETE;] INSERT
            /\ sql' = [sql EXCEPT !.txn = "open", !.pending = mem]
            /\ sqlpc' = "commit"
       [] sqlpc = "commit" ->
            /\ sql' = [row |-> sql.pending, txn |-> "none", pending |-> <<>>]
            /\ sqlpc' = "sqldone"
  /\ UNCHANGED <<folder, pc, mem, prev, nsaves, sqlprev, sqlfailed, at>>
(* an exception at the current statement: rollback, close *)
SqlFail == /\ Crashes
           /\ sqlpc \in {"pragma", "script", "insert", "commit"}
           /\ sql' = [sql EXCEPT !.txn = "none", !.pending = <<>>]
           /\ sqlpc' = "idle" /\ sqlfailed' = TRUE /\ mem' = <<>>
           /\ UNCHANGED <<folder, pc, prev, nsaves, sqlprev, at>>
SqlEnd == /\ sqlpc = "sqldone"
          /\ sqlprev' = mem /\ mem' = <<>> /\ sqlpc' = "idle"
          /\ UNCHANGED <<folder, pc, prev, nsaves, sql, sqlfailed, at>>
SqlLoad == IF sql.row = <<>> THEN Error ELSE sql.row[1]

Next == \/ \E s \in States : BeginSave(s)
        \/ Truncate \/ Finish \/ WriteH5 \/ EndSave \/ Crash
        \/ \E s \in States : SqlBegin(s)
        \/ SqlStep \/ SqlFail \/ SqlEnd

(* ---- properties --------------------------------------------------------------------------------- *)
(* C04: whatever the folder held before, a completed save is what a restore reads back *)
RestoreEqualsSaved == pc = "idle" /\ prev # <<>> => Load = Whole(prev[1])
SqlRestoreEqualsSaved == sqlpc = "idle" /\ sqlprev # <<>> /\ ~sqlfailed => SqlLoad = sqlprev[1]
(* C06: an interrupted save is never restored as a silent hybrid *)
NoSilentHybrid == pc = "crashed" => \/ Load = Error
                                    \/ (prev # <<>> /\ Load = Whole(prev[1]))
                                    \/ Load = Whole(mem[1])
(* C06, SQLite: a failed save leaves the previous checkpoint loadable *)
FailedSaveKeepsPrevious == sqlfailed /\ sqlprev # <<>> => SqlLoad = sqlprev[1]

(* classification of the outcome of a load after a crash, tabulated by TLC for the conformance harness *)
Outcome == IF Load = Error THEN "error"
           ELSE IF prev # <<>> /\ Load = Whole(prev[1]) THEN "previous"
           ELSE IF mem # <<>> /\ Load = Whole(mem[1]) THEN "new"
           ELSE "hybrid"
=============================================================================
