------------------------------- MODULE Bandit -------------------------------
(***************************************************************************)
(* C19 - MABEpsilonGreedy (agents/epsilon_greedy.py) and the reward of     *)
(* MABCalibrationEnv (envs/mab.py), in exact rational arithmetic           *)
(* (<<num, den>>, den > 0, normalised).                                    *)
(*                                                                         *)
(*   Learn(a, r)  : count[a] += 1;  Q[a] += step * (r - Q[a]) with         *)
(*                  step = 1/count[a] (sample average, alpha = sentinel)   *)
(*                  or the constant learning rate; other estimates kept    *)
(*   Observe(b)   : reward = (ref - b)/ref if b < ref else 0; ref moves    *)
(*                  only on improvement                                    *)
(*   Greedy       : with epsilon 0 the chosen action has maximal estimate  *)
(***************************************************************************)
EXTENDS Integers, Sequences, FiniteSets, TLC

CONSTANTS NActions,       \* number of actions
          Alpha,          \* <<num, den>> learning rate, or <<-1, 1>> = sample-average sentinel
          Rewards,        \* set of rationals a learn step may receive
          Losses,         \* set of positive rationals the environment may observe as best loss
          MaxSteps,
          StepRule        \* "published" | "count+1" (design mutant: step 1/(count+1))

(* ---- rationals ------------------------------------------------------------------------------------ *)
Abs(x) == IF x < 0 THEN -x ELSE x
RECURSIVE GCD(_, _)
GCD(a, b) == IF b = 0 THEN a ELSE GCD(b, a % b)
Norm(r) == LET g == GCD(Abs(r[1]), r[2]) IN IF r[1] = 0 THEN <<0, 1>> ELSE <<r[1] \div g, r[2] \div g>>
RAdd(x, y) == Norm(<<x[1] * y[2] + y[1] * x[2], x[2] * y[2]>>)
RSub(x, y) == Norm(<<x[1] * y[2] - y[1] * x[2], x[2] * y[2]>>)
RMul(x, y) == Norm(<<x[1] * y[1], x[2] * y[2]>>)
RDiv(x, y) == IF y[1] > 0 THEN Norm(<<x[1] * y[2], x[2] * y[1]>>) ELSE Norm(<<-(x[1] * y[2]), x[2] * (-y[1])>>)
RLess(x, y) == x[1] * y[2] < y[1] * x[2]
RLeq(x, y) == x[1] * y[2] <= y[1] * x[2]
Zero == <<0, 1>>
Sentinel == <<-1, 1>>

Actions == 0..NActions - 1

VARIABLES Q, count, ref, t, lastReward, rsum
vars == <<Q, count, ref, t, lastReward, rsum>>
(* rsum[a] : ghost - sum of the rewards learned for action a *)

Init == /\ Q = [a \in Actions |-> Zero] /\ count = [a \in Actions |-> 0] /\ ref \in Losses /\ t = 0
        /\ lastReward = Zero /\ rsum = [a \in Actions |-> Zero]

StepSize(a, c) == IF Alpha = Sentinel
                    THEN (IF StepRule = "published" THEN <<1, c[a]>> ELSE <<1, c[a] + 1>>)
                    ELSE Alpha

Learn(a, r) == /\ t < MaxSteps
               /\ count' = [count EXCEPT ![a] = @ + 1]
               /\ Q' = [Q EXCEPT ![a] = RAdd(@, RMul(StepSize(a, count'), RSub(r, @)))]
               /\ rsum' = [rsum EXCEPT ![a] = RAdd(@, r)]
               /\ t' = t + 1
               /\ UNCHANGED <<ref, lastReward>>

RewardOf(best, reference) == IF RLess(best, reference) THEN RDiv(RSub(reference, best), reference) ELSE Zero
Observe(b) == /\ t < MaxSteps
              /\ lastReward' = RewardOf(b, ref)
              /\ ref' = IF RLess(b, ref) THEN b ELSE ref
              /\ t' = t + 1
              /\ UNCHANGED <<Q, count, rsum>>

Next == \/ \E a \in Actions : \E r \in Rewards : Learn(a, r)
        \/ \E b \in Losses : Observe(b)

(* ---- properties ----------------------------------------------------------------------------------- *)
OthersUnchanged == [][\A a \in Actions : count'[a] = count[a] => Q'[a] = Q[a]]_vars
OneAtATime == [][Cardinality({a \in Actions : count'[a] # count[a]}) <= 1]_vars
(* in the sample-average setting the estimate is the mean of the rewards received for the action *)
SampleAverageIsMean == Alpha = Sentinel => \A a \in Actions : count[a] > 0 => Q[a] = RDiv(rsum[a], <<count[a], 1>>)
(* with learning rate 1 the estimate is the last reward; it always stays within the range of rewards seen *)
RewardInRange == RLeq(Zero, lastReward) /\ RLess(lastReward, <<1, 1>>)
RefOnlyDecreases == [][RLeq(ref', ref)]_vars
GreedyChoices == {a \in Actions : \A b \in Actions : RLeq(Q[b], Q[a])}
GreedyNonEmpty == GreedyChoices # {}
=============================================================================
