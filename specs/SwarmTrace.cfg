CONSTANTS
  NP = 1
  Losses = {}
  MaxLen = 0
  StartRule = "len"
INIT TInit
NEXT TStep
CONSTRAINT Report
