CONSTANTS
  Vals <- V4
  MaxD = 2
  Order = "documented"
INIT Init
NEXT Next
INVARIANT MachineMatchesTable
INVARIANT GridLaw
