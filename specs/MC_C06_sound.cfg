CONSTANTS
  Runs = {"A", "B"}
  MaxRows = 2
  MaxSaves = 2
  AppendInPlace = FALSE
  Crashes = TRUE
  CrossCheck = TRUE
  SqlDeleteInTxn = TRUE
INIT Init
NEXT Next
INVARIANT NoSilentHybrid
INVARIANT FailedSaveKeepsPrevious
INVARIANT RestoreEqualsSaved
