CONSTANTS
  Runs = {"A", "B"}
  Shared = {"A2"}
  MaxRows = 2
  MaxSaves = 2
  AppendInPlace = "prefix"
  Crashes = TRUE
  CrossCheck = TRUE
  SqlDeleteInTxn = TRUE
INIT Init
NEXT Next
INVARIANT NoSilentHybrid
INVARIANT FailedSaveKeepsPrevious
INVARIANT RestoreEqualsSaved
