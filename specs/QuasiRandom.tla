----------------------------- MODULE QuasiRandom -----------------------------
(***************************************************************************)
(* C13 - the Halton and R-sequence samplers (samplers/halton.py,           *)
(* samplers/r_sequence.py) in integer arithmetic.                          *)
(*                                                                         *)
(*  RadInv(n, b)  radical inverse of n in base b as <<numerator, b^K>>     *)
(*                (digit reversal; exact)                                  *)
(*  NthPrime(k)   the k-th prime (trial division)                          *)
(*  the sampler   a cursor into the sequence: a batch of n emits the       *)
(*                indices cursor+1 .. cursor+n and advances the cursor by  *)
(*                n, so successive batches continue the sequence and two   *)
(*                batches of n are one batch of 2n                         *)
(***************************************************************************)
EXTENDS Integers, Sequences, FiniteSets, TLC

RECURSIVE Rev(_, _, _, _)
Rev(n, b, num, den) == IF n = 0 THEN <<num, den>> ELSE Rev(n \div b, b, num * b + (n % b), den * b)
RadInv(n, b) == Rev(n, b, 0, 1)

IsPrime(p) == p >= 2 /\ \A q \in 2..p - 1 : q * q > p \/ p % q # 0
RECURSIVE PrimeFrom(_, _)
PrimeFrom(p, k) == IF IsPrime(p) THEN (IF k = 1 THEN p ELSE PrimeFrom(p + 1, k - 1)) ELSE PrimeFrom(p + 1, k)
NthPrime(k) == PrimeFrom(2, k)

(* ---- the sampler as a machine (model checking) ---------------------------------------------------- *)
CONSTANTS Starts,        \* possible start indices
          BatchSizes,    \* batch sizes
          MaxBatches,
          Dims,
          CursorRule     \* "advance" (the code) | "stay" (design mutant: cursor not advanced) | "skip" (advances by n+1)

VARIABLES start, cursor, emitted, nb
vars == <<start, cursor, emitted, nb>>
(* emitted : sequence of emitted sequence indices (one per point, in order) *)

Init == /\ start \in Starts /\ cursor = start /\ emitted = <<>> /\ nb = 0
Batch(n) == /\ nb < MaxBatches
            /\ emitted' = emitted \o [k \in 1..n |-> cursor + k]
            /\ cursor' = CASE CursorRule = "advance" -> cursor + n [] CursorRule = "stay" -> cursor [] CursorRule = "skip" -> cursor + n + 1
            /\ nb' = nb + 1 /\ UNCHANGED start
Next == \E n \in BatchSizes : Batch(n)

(* the k-th point overall is the (start + k)-th element of the sequence: no gap, no repetition, whatever the batch sizes *)
Contiguous == \A k \in 1..Len(emitted) : emitted[k] = start + k
PointOf(idx) == [j \in 1..Dims |-> RadInv(idx, NthPrime(j))]
(* two different indices never give the same point (bases are coprime): the emitted points are pairwise distinct *)
Distinct == \A i, j \in 1..Len(emitted) : i # j => PointOf(emitted[i]) # PointOf(emitted[j])
InUnitCube == \A k \in 1..Len(emitted) : \A j \in 1..Dims : LET r == RadInv(emitted[k], NthPrime(j)) IN r[1] > 0 /\ r[1] < r[2]
=============================================================================
