\* mc: C09 RL: bootstrap Halton (appended), later batches any sampler of the set
CONSTANTS
  Configs <- Cfg_MC_C09_rl
  BreakOnConverged = TRUE
  CkptBeforeBreak = TRUE
  SessionFinally = TRUE
  SeedOnlyAtZero = TRUE
  PersistTable = TRUE
  SeedsInParent = TRUE
INIT Init
NEXT Next
INVARIANT TypeOK
INVARIANT Aligned
INVARIANT Truthful
INVARIANT BatchesConsecutive
INVARIANT LabelNamesProducer
INVARIANT NoThreadLeft
INVARIANT RLBootstrap
INVARIANT BatchSizes
