-------------------------- MODULE CalibrationTrace --------------------------
(***************************************************************************)
(* Trace validation of real Calibrator executions against Calibration.tla. *)
(*                                                                         *)
(* The harness drives the real class with recording plug-ins and logs one  *)
(* event per observable step (arguments + cheap scalar state):             *)
(*   call{n}                      calibrate(n) entered                     *)
(*   sample{s,cls,root,k,gk,pids} sampler object at line-up position s was *)
(*                                asked; k = its call count, gk = position *)
(*                                of its generator, pids = ids of the rows *)
(*   model{pid,N,sp}              model ran on vector pid with seed #sp    *)
(*   loss{mem,val}                loss evaluated on members <<pid,sp>>..   *)
(*   fault{at}                    a plug-in raised                         *)
(*   ckpt{bi,ns}                  checkpoint written by calibrate()        *)
(*   ret{pairs} / raise{type}     calibrate() returned / raised            *)
(*   idle{bi,ns,lens,rows,table,threads}  projection of the object after   *)
(*                                every public call                        *)
(*   disk{bi,ns,rows,rngok}       projection of what restore reads back    *)
(*   mkckpt / restore / set{line} operations between calls                 *)
(* Each event is explained by the corresponding action of Calibration.tla  *)
(* with the logged fields bound to the specification's variables; actions  *)
(* that have no observable effect (Loop, Pick, DrawSeeds, AppendRows, ...) *)
(* are silent steps.  Every invariant of Calibration.tla is evaluated in   *)
(* every state of every trace (operator InvOK).                            *)
(***************************************************************************)
EXTENDS Calibration, Json, IOUtils

Doc    == JsonDeserialize(IOEnv.TRACE_FILE)
Traces == Doc.traces

VARIABLES tid, l, pidmap, chosen
(* pidmap : symbolic parameter token of the specification -> id of the concrete vector the code produced *)
(* chosen : RL only - the sampler indices the agent's policy returned, in order (from `idle` events)      *)
tvars == <<tid, l, pidmap, chosen>>
allvars == <<vars, tvars>>

T  == Traces[tid]
Ev == T.ev[l]
More == l <= Len(T.ev)
IsEvent(name) == More /\ Ev.e = name

ToSet(sq) == {sq[i] : i \in 1..Len(sq)}

(* the number of draws the seed cascade takes is not part of any property: every trace is tried with each candidate number *)
Burns == 0..8
KOf0(c) == [burn |-> 0, lineup |-> c.lineup, alts |-> ToSet(c.alts), kind |-> c.kind, E |-> c.E, callsizes |-> {},
           maxbatches |-> 9999, maxcalls |-> 9999, lossvals |-> {}, convon |-> c.convon,
           verboses |-> {c.verbose}, savings |-> {c.saving}, njobs |-> {1},
           faultsat |-> {"sampler", "model", "loss"}, restore |-> TRUE]
KOfB(c, b) == [KOf0(c) EXCEPT !.burn = b]
KOf(c) == KOf0(c)

TInit ==
  /\ tid \in 1..Len(Traces)
  /\ l = 1
  /\ pidmap = [x \in {} |-> 0]
  /\ chosen = <<>>
  /\ K \in {KOfB(Traces[tid].cfg, b) : b \in Burns}
  /\ pc = "idle"
  /\ cfg = [verbose |-> Traces[tid].cfg.verbose, saving |-> Traces[tid].cfg.saving, njobs |-> 1]
  /\ todo = 0 /\ call = None /\ bi = 0 /\ ns = 0 /\ hist = <<>> /\ cur = NoCur /\ rng = 0
  /\ line = Effective(KOf(Traces[tid].cfg).lineup)
  /\ samp = FreshSamp(Effective(KOf(Traces[tid].cfg).lineup))
  /\ served = 0 /\ best = None
  /\ idt = Construct(Effective(KOf(Traces[tid].cfg).lineup))
  /\ disk = None /\ alive = FALSE /\ brk = FALSE /\ calls = 0 /\ outcome = "none" /\ clean = TRUE

Consume == l' = l + 1 /\ UNCHANGED <<tid, K>>
Keep    == UNCHANGED <<tid, l, K, pidmap, chosen>>

(* ---- silent steps: no plug-in is called, nothing to observe ---------------------------------- *)
ModelLogged == T.cfg.modelevents
Silent ==
  /\ \/ SeedCascade \/ StartSession \/ Loop \/ Pick \/ DrawSeeds \/ AppendRows \/ Update \/ ConvCheck \/ EndSession
     \/ (~cfg.saving /\ Checkpoint)
     \/ (~ModelLogged /\ \E t \in Tasks : Complete(t))
  /\ Keep

(* ---- logged steps ---------------------------------------------------------------------------- *)
TCall == /\ IsEvent("call")
         /\ Calibrate(Ev.n)
         /\ Consume /\ UNCHANGED <<pidmap, chosen>>

TSample ==
  /\ IsEvent("sample")
  /\ Sample
  /\ Ev.s = cur.s                                   \* the designated sampler object was the one asked
  /\ Ev.cls = line[cur.s].cls
  /\ Ev.k = samp[cur.s].k /\ Ev.gk = samp[cur.s].k  \* its own cursor and its generator continue where they were
  /\ Ev.root = samp[cur.s].root                     \* seeded by the cascade (or by its constructor after set_samplers)
  /\ Len(Ev.pids) = line[cur.s].bs                  \* exactly batch_size rows
  /\ Ev.bi = bi /\ Ev.ns = ns /\ \A a \in 1..Len(Ev.lens) : Ev.lens[a] = ns   \* state at the start of the batch
  /\ pidmap' = [x \in DOMAIN pidmap \cup {cur'.pars[j] : j \in 1..Len(Ev.pids)} |->
                   IF \E j \in 1..Len(Ev.pids) : cur'.pars[j] = x
                     THEN Ev.pids[CHOOSE j \in 1..Len(Ev.pids) : cur'.pars[j] = x] ELSE pidmap[x]]
  /\ Consume /\ UNCHANGED chosen

NextTask == CHOOSE t \in Tasks \ cur.done : \A u \in Tasks \ cur.done : TaskNo(t) <= TaskNo(u)
TModel ==
  /\ IsEvent("model")
  /\ pc = "sim" /\ Tasks \ cur.done # {}
  /\ LET t == NextTask IN
       /\ Complete(t)
       /\ Ev.pid = pidmap[cur.pars[t[1]]]           \* the model ran on exactly the proposed vector
       /\ Ev.sp = cur.seeds[t[1]][t[2]]             \* with the seed drawn for this task, in task order
       /\ Ev.N = T.cfg.N                            \* and the configured simulation length
  /\ Consume /\ UNCHANGED <<pidmap, chosen>>

TLoss ==
  /\ IsEvent("loss")
  /\ pc = "loss"
  /\ LET j == Len(cur.losses) + 1 IN
       /\ Len(Ev.mem) = E
       /\ \A e \in 1..E : Ev.mem[e] = <<pidmap[cur.pars[j]], cur.seeds[j][e]>>   \* exactly the E series of row j
  /\ Loss(Ev.val)
  /\ Consume /\ UNCHANGED <<pidmap, chosen>>

TFault == /\ IsEvent("fault")
          /\ Fault(Ev.at)
          /\ Consume /\ UNCHANGED <<pidmap, chosen>>

TCkpt == /\ IsEvent("ckpt")
         /\ cfg.saving /\ Checkpoint
         /\ Ev.bi = bi /\ Ev.ns = ns
         /\ Consume /\ UNCHANGED <<pidmap, chosen>>

Pairs == [i \in 1..Len(hist) |-> <<pidmap[hist[i].par], hist[i].loss>>]
Count(sq, x) == Cardinality({i \in 1..Len(sq) : sq[i] = x})
SortedReturn(pairs) ==
  /\ Len(pairs) = Len(hist)
  /\ \A i \in 1..Len(pairs) : Count(pairs, pairs[i]) = Count(Pairs, pairs[i])      \* precisely the recorded pairs
  /\ \A i \in 1..Len(pairs) - 1 : pairs[i][2] <= pairs[i + 1][2]                    \* by increasing loss
TRet == /\ IsEvent("ret")
        /\ Return
        /\ SortedReturn(Ev.pairs)
        /\ Consume /\ UNCHANGED <<pidmap, chosen>>

TRaise == /\ IsEvent("raise")
          /\ \/ Unwind /\ Ev.injected                 \* the plug-in's own exception propagates
             \/ Refuse /\ ~Ev.injected
          /\ Consume /\ UNCHANGED <<pidmap, chosen>>

RowOK(i, r) == /\ r.pid = pidmap[hist[i].par]
               /\ r.mem = [e \in 1..E |-> <<pidmap[hist[i].ser.p], hist[i].ser.seeds[e]>>]
               /\ r.loss = hist[i].loss
               /\ r.batch = hist[i].batch
               /\ r.meth = hist[i].meth
TableOK(tb) == /\ DOMAIN tb = DOMAIN idt
               /\ \A c \in DOMAIN idt : tb[c] = idt[c]

(* executed sampler per batch, for the RL clause of C09 *)
Executed == [b \in 1..bi - 1 |-> (CHOOSE i \in 1..Len(hist) : hist[i].batch = b)]
RLChoiceOK(ch) == Kind = "rl" /\ clean =>
                    /\ Len(ch) >= bi - 1
                    /\ \A b \in 1..bi - 1 : hist[Executed[b]].par[1] = ch[b] + 1     \* batch b ran the b-th choice of the agent

TIdle ==
  /\ IsEvent("idle")
  /\ pc \in {"idle", "raised"}
  /\ Ev.bi = bi /\ Ev.ns = ns
  /\ \A a \in 1..Len(Ev.lens) : Ev.lens[a] = Len(hist)
  /\ Len(Ev.rows) = Len(hist)
  /\ \A i \in 1..Len(hist) : RowOK(i, Ev.rows[i])
  /\ TableOK(Ev.table)
  /\ Ev.threads = (IF alive THEN 1 ELSE 0)
  /\ Ev.raised = (pc = "raised")
  /\ RLChoiceOK(Ev.chosen)
  /\ chosen' = Ev.chosen
  /\ Consume /\ UNCHANGED <<vars, pidmap>>

(* what a restore reads back from the saving folder *)
TDisk ==
  /\ IsEvent("disk")
  /\ pc \in {"idle", "raised"}
  /\ disk # None
  /\ LET d == disk[1] IN
       /\ Ev.bi = d.bi /\ Ev.ns = d.ns
       /\ Len(Ev.rows) = Len(d.hist)
       /\ \A i \in 1..Len(d.hist) :
            /\ Ev.rows[i].pid = pidmap[d.hist[i].par]
            /\ Ev.rows[i].loss = d.hist[i].loss
            /\ Ev.rows[i].batch = d.hist[i].batch
            /\ Ev.rows[i].meth = d.hist[i].meth
            /\ Ev.rows[i].mem = [e \in 1..E |-> <<pidmap[d.hist[i].ser.p], d.hist[i].ser.seeds[e]>>]
       /\ Ev.rng = d.rng                                 \* position of the calibrator's generator
       /\ \A c \in DOMAIN Ev.names : \E cl \in DOMAIN d.idt : d.idt[cl] = Ev.names[c].id /\ cl = Ev.names[c].cls
       /\ Ev.namesok
  /\ Consume /\ UNCHANGED <<vars, pidmap, chosen>>

TMkCkpt == /\ IsEvent("mkckpt") /\ CreateCheckpoint /\ Consume /\ UNCHANGED <<pidmap, chosen>>
TRestore == /\ IsEvent("restore") /\ Restore /\ Consume /\ UNCHANGED <<pidmap, chosen>>
TSet == /\ IsEvent("set")
        /\ SetSamplers(Ev.line)
        /\ Consume /\ UNCHANGED <<pidmap, chosen>>

(* C09: the four combinations of the samplers / scheduler constructor arguments *)
TCtor == /\ IsEvent("ctor")
         /\ Ev.outcome = CtorOutcome(Ev.samplers, Ev.scheduler)
         /\ Consume /\ UNCHANGED <<vars, pidmap, chosen>>

TSetSched == /\ IsEvent("setsched")
             /\ SetScheduler(Ev.line)
             /\ Consume /\ UNCHANGED <<pidmap, chosen>>

TNext == /\ \/ TCtor \/ TSetSched \/ Silent \/ TCall \/ TSample \/ TModel \/ TLoss \/ TFault \/ TCkpt \/ TRet \/ TRaise \/ TIdle \/ TDisk
            \/ TMkCkpt \/ TRestore \/ TSet
         /\ UNCHANGED K

(* ---- every property of the design, evaluated in every state of every trace --------------------- *)
InvNames == <<"TypeOK", "Aligned", "Truthful", "BatchesConsecutive", "LabelNamesProducer", "NoThreadLeft",
              "RoundRobin", "BatchSizes", "ObservableIsRef", "HistoryIsCompletedPrefix", "RLBootstrap",
              "StopExactly", "TriggerBatchRecorded", "IdsInjective", "RecoverableFromDisk", "NoCtorRoot">>
InvVal(n) == CASE n = "TypeOK" -> TypeOK [] n = "Aligned" -> Aligned [] n = "Truthful" -> Truthful
               [] n = "BatchesConsecutive" -> BatchesConsecutive [] n = "LabelNamesProducer" -> LabelNamesProducer
               [] n = "NoThreadLeft" -> NoThreadLeft [] n = "RoundRobin" -> RoundRobin [] n = "BatchSizes" -> BatchSizes
               [] n = "ObservableIsRef" -> ObservableIsRef [] n = "HistoryIsCompletedPrefix" -> HistoryIsCompletedPrefix
               [] n = "RLBootstrap" -> RLBootstrap [] n = "StopExactly" -> StopExactly
               [] n = "TriggerBatchRecorded" -> TriggerBatchRecorded [] n = "IdsInjective" -> IdsInjective
               [] n = "RecoverableFromDisk" -> RecoverableFromDisk [] n = "NoCtorRoot" -> NoCtorRoot
Failing == {i \in 1..Len(InvNames) : ~InvVal(InvNames[i])}

(* ---- diagnosis: which logged field contradicts the specification state (reported with a rejected trace) ---- *)
Failed(pairs) == {pairs[i][1] : i \in {j \in 1..Len(pairs) : ~pairs[j][2]}}
RowsDiag(rows, h) == IF Len(rows) # Len(h) THEN {"history-length"}
                     ELSE UNION {Failed(<< <<"row-param", rows[i].pid = pidmap[h[i].par]>>,
                                           <<"row-series", rows[i].mem = [e \in 1..E |-> <<pidmap[h[i].ser.p], h[i].ser.seeds[e]>>]>>,
                                           <<"row-loss", rows[i].loss = h[i].loss>>,
                                           <<"row-batch", rows[i].batch = h[i].batch>>,
                                           <<"row-method", rows[i].meth = h[i].meth>> >>) : i \in 1..Len(h)}
Diag ==
  IF ~More THEN {}
  ELSE CASE Ev.e = "sample" /\ pc = "sample" ->
              Failed(<< <<"sampler-position", Ev.s = cur.s>>, <<"sampler-class", Ev.cls = line[cur.s].cls>>,
                        <<"sampler-cursor", Ev.k = samp[cur.s].k>>, <<"sampler-generator-position", Ev.gk = samp[cur.s].k>>,
                        <<"sampler-seed-root", Ev.root = samp[cur.s].root>>, <<"batch-size", Len(Ev.pids) = line[cur.s].bs>>,
                        <<"counters-at-batch-start", Ev.bi = bi /\ Ev.ns = ns>>,
                        <<"array-lengths-at-batch-start", \A a \in 1..Len(Ev.lens) : Ev.lens[a] = ns>> >>)
         [] Ev.e = "model" /\ pc = "sim" /\ Tasks \ cur.done # {} ->
              Failed(<< <<"model-vector", Ev.pid = pidmap[cur.pars[NextTask[1]]]>>,
                        <<"model-seed-order", Ev.sp = cur.seeds[NextTask[1]][NextTask[2]]>>, <<"model-length", Ev.N = T.cfg.N>> >>)
         [] Ev.e = "loss" /\ pc = "loss" ->
              Failed(<< <<"loss-series", Len(Ev.mem) = E /\ \A e \in 1..E :
                            Ev.mem[e] = <<pidmap[cur.pars[Len(cur.losses) + 1]], cur.seeds[Len(cur.losses) + 1][e]>> >> >>)
         [] Ev.e = "ckpt" /\ pc = "ckpt" -> Failed(<< <<"checkpoint-counters", Ev.bi = bi /\ Ev.ns = ns>>, <<"saving", cfg.saving>> >>)
         [] Ev.e = "ret" /\ pc = "ret" -> Failed(<< <<"sorted-return", SortedReturn(Ev.pairs)>> >>)
         [] Ev.e = "idle" /\ pc \in {"idle", "raised"} ->
              Failed(<< <<"batch-index", Ev.bi = bi>>, <<"sample-counter", Ev.ns = ns>>,
                        <<"array-lengths", \A a \in 1..Len(Ev.lens) : Ev.lens[a] = Len(hist)>>,
                        <<"id-table", TableOK(Ev.table)>>, <<"threads-left", Ev.threads = (IF alive THEN 1 ELSE 0)>>,
                        <<"raised", Ev.raised = (pc = "raised")>>, <<"agent-choice", RLChoiceOK(Ev.chosen)>> >>)
              \cup RowsDiag(Ev.rows, hist)
         [] Ev.e = "disk" /\ pc \in {"idle", "raised"} /\ disk # None ->
              Failed(<< <<"disk-batch-index", Ev.bi = disk[1].bi>>, <<"disk-sample-counter", Ev.ns = disk[1].ns>>,
                        <<"disk-generator", Ev.rng = disk[1].rng>>, <<"disk-sampler-names", Ev.namesok /\ \A c \in DOMAIN Ev.names :
                                                   \E cl \in DOMAIN disk[1].idt : disk[1].idt[cl] = Ev.names[c].id /\ cl = Ev.names[c].cls>> >>)
              \cup RowsDiag(Ev.rows, disk[1].hist)
         [] Ev.e = "disk" /\ pc \in {"idle", "raised"} /\ disk = None -> {"no-checkpoint-expected"}
         [] Ev.e = "ctor" -> {"constructor-exactly-one-of"}
         [] Ev.e = "raise" -> {"exception-does-not-fit:" \o pc}
         [] Ev.e = "ret" -> {"return-does-not-fit:" \o pc}
         [] OTHER -> {"event-does-not-fit:" \o pc}

(* registers: tid -> furthest event index reached; 100000+tid -> diagnosis of the last state seen at that index *)
Summary == <<IF More THEN Ev.e ELSE "end", pc, bi, ns, Len(hist), Diag>>
Report ==
  /\ IF l >= TLCGet(tid) THEN TLCSet(tid, l) /\ TLCSet(100000 + tid, Summary) ELSE TRUE
  /\ (Failing = {} \/ (PrintT(<<"BAD", tid, l, InvNames[CHOOSE i \in Failing : TRUE]>>) /\ FALSE))

ASSUME \A i \in 1..Len(Traces) : TLCSet(i, 0) /\ TLCSet(100000 + i, <<>>)

Post == \A i \in 1..Len(Traces) :
          IF TLCGet(i) = Len(Traces[i].ev) + 1 THEN PrintT(<<"OK", i>>)
          ELSE PrintT(<<"STUCK", i, TLCGet(i), TLCGet(100000 + i)>>)

(* action properties of the design, checked on the traces as well *)
TAppendOnly == [][Restore \/ IsPrefix(hist, hist')]_allvars
TIdsNeverReassigned == [][Restore \/ \A c \in DOMAIN idt : c \in DOMAIN idt' /\ idt'[c] = idt[c]]_allvars
=============================================================================
