CONSTANTS
  GridUniverse = {0}
  MaxLen = 1
  Values = {0}
  StepRule = "strict"
INIT TInit
NEXT TNext
CONSTRAINT Report
