\* mut: design mutant: seeds drawn inside the worker -> outcome depends on completion order
CONSTANTS
  Configs <- Cfg_MC_C01_mut
  BreakOnConverged = TRUE
  CkptBeforeBreak = TRUE
  SessionFinally = TRUE
  SeedOnlyAtZero = TRUE
  PersistTable = TRUE
  SeedsInParent = FALSE
INIT Init
NEXT Next
INVARIANT ObservableIsRef
