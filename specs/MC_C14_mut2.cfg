\* mut: pinned design: break skips the checkpoint
CONSTANTS
  Configs <- Cfg_MC_C14_mut2
  BreakOnConverged = TRUE
  CkptBeforeBreak = FALSE
  SessionFinally = TRUE
  SeedOnlyAtZero = TRUE
  PersistTable = TRUE
  SeedsInParent = TRUE
INIT Init
NEXT Next
INVARIANT TriggerBatchRecorded
