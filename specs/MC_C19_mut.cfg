CONSTANTS
  NActions = 2
  Alpha <- ASent
  Rewards <- R4
  Losses <- L3
  MaxSteps = 5
  StepRule = "count+1"
INIT Init
NEXT Next
INVARIANT SampleAverageIsMean
INVARIANT RewardInRange
INVARIANT GreedyNonEmpty
PROPERTY OthersUnchanged
PROPERTY OneAtATime
PROPERTY RefOnlyDecreases
