------------------------------ MODULE DedupTrace ------------------------------
(***************************************************************************)
(* Trace validation for C12.  A scripted BaseSampler subclass serves its   *)
(* draws from a stream and logs every sample_batch request:                *)
(*   call{hist, bs, budget}   sample() entered (history as point ids)      *)
(*   draw{n, pts}             sample_batch asked for n points, returned pts*)
(*   ret{pts}                 sample() returned                            *)
(* Each draw is explained by FirstDraw / Pass of Dedup.tla with the logged *)
(* request size bound to `asked` and the logged points bound - as a        *)
(* multiset, the assignment order is inferred by TLC - to the repeated     *)
(* positions; the return must be the batch of a state in which the loop    *)
(* may stop.                                                               *)
(***************************************************************************)
EXTENDS Dedup, Json, IOUtils

Doc    == JsonDeserialize(IOEnv.TRACE_FILE)
Traces == Doc.traces
VARIABLES tid, l
T  == Traces[tid]
Ev == T[l]
More == l <= Len(T)

TInit == /\ tid \in 1..Len(Traces) /\ l = 1
         /\ hist = <<>> /\ bs = 0 /\ budget = 0 /\ batch = <<>> /\ first = <<>> /\ passes = 0 /\ asked = <<>> /\ repeatsAt = <<>>
         /\ phase = "idle"

BagEq(a, b) == /\ Len(a) = Len(b)
               /\ \A i \in 1..Len(a) : Count(a[i], a) = Count(a[i], b)

TCall == /\ More /\ Ev.e = "call" /\ phase \in {"idle", "done"}
         /\ hist' = Ev.hist /\ bs' = Ev.bs /\ budget' = Ev.budget
         /\ batch' = <<>> /\ first' = <<>> /\ passes' = 0 /\ asked' = <<>> /\ repeatsAt' = <<>> /\ phase' = "start"
         /\ l' = l + 1 /\ UNCHANGED tid

TFirst == /\ More /\ Ev.e = "draw" /\ phase = "start"
          /\ FirstDraw
          /\ Ev.n = bs /\ batch' = Ev.pts
          /\ l' = l + 1 /\ UNCHANGED tid

(* all ways of assigning the drawn points (a sequence) to the repeated positions (a set) *)
Assignments(pos, pts) == {f \in [pos -> {pts[i] : i \in 1..Len(pts)}] :
                            \A x \in {pts[i] : i \in 1..Len(pts)} : Cardinality({p \in pos : f[p] = x}) = Count(x, pts)}
TPass == /\ More /\ Ev.e = "draw" /\ phase = "loop"
         /\ Ev.n = Cardinality(Repeats(batch, hist))            \* asked for exactly as many points as there were repeats
         /\ Len(Ev.pts) = Ev.n
         /\ \E new \in Assignments(Repeats(batch, hist), Ev.pts) : PassWith(new)   \* the drawn points went to the repeated positions
         /\ l' = l + 1 /\ UNCHANGED tid

TRet == /\ More /\ Ev.e = "ret" /\ phase = "loop"
        /\ \/ Stop                                                 \* no repeat left
           \/ GiveUp                                               \* budget used up
        /\ Ev.pts = batch
        /\ l' = l + 1 /\ UNCHANGED tid

TNext == TCall \/ TFirst \/ TPass \/ TRet

InvNames == <<"ShapePreserved", "AskedExactlyRepeats", "RepeatOnlyIfBudgetExhausted", "FirstDrawKept">>
InvVal(n) == CASE n = "ShapePreserved" -> (phase \in {"loop", "done"} => Len(batch) = bs)
               [] n = "AskedExactlyRepeats" -> AskedExactlyRepeats
               [] n = "RepeatOnlyIfBudgetExhausted" -> RepeatOnlyIfBudgetExhausted
               [] n = "FirstDrawKept" -> FirstDrawKept
Failing == {i \in 1..Len(InvNames) : ~InvVal(InvNames[i])}

Diag == IF ~More THEN "end"
        ELSE IF Ev.e = "draw" /\ phase = "start" THEN "first draw: wrong size requested or returned"
        ELSE IF Ev.e = "draw" /\ phase = "loop" /\ Repeats(batch, hist) = {} THEN "redraw although no point is repeated"
        ELSE IF Ev.e = "draw" /\ phase = "loop" /\ passes >= budget THEN "redraw beyond the pass budget"
        ELSE IF Ev.e = "draw" /\ phase = "loop" /\ Ev.n # Cardinality(Repeats(batch, hist)) THEN "asked for a number of points different from the number of repeats"
        ELSE IF Ev.e = "draw" THEN "redrawn points were not substituted exactly at the repeated positions"
        ELSE IF Ev.e = "ret" /\ phase = "loop" /\ Repeats(batch, hist) # {} /\ passes < budget THEN "returned a repeat before the pass budget was used up"
        ELSE IF Ev.e = "ret" THEN "returned batch differs from first draw with repeats substituted (a non-repeat was altered, or shape changed)"
        ELSE "event not explained"

ASSUME \A i \in 1..Len(Traces) : TLCSet(i, 0) /\ TLCSet(100000 + i, "")
Report ==
  /\ IF l >= TLCGet(tid) THEN TLCSet(tid, l) /\ TLCSet(100000 + tid, Diag) ELSE TRUE
  /\ (Failing = {} \/ (PrintT(<<"BAD", tid, l, InvNames[CHOOSE i \in Failing : TRUE]>>) /\ FALSE))
Post == \A i \in 1..Len(Traces) :
          IF TLCGet(i) = Len(Traces[i]) + 1 THEN PrintT(<<"OK", i>>)
          ELSE PrintT(<<"STUCK", i, TLCGet(i), TLCGet(100000 + i)>>)
=============================================================================
