CONSTANTS
  GSizes = {}
  Rems = {}
  Range = 2
  SnapAfterClip = TRUE
  PoolSizes = {}
  Scores = {}
  BatchSizes = {}
INIT TInit
NEXT Step
CONSTRAINT Report
