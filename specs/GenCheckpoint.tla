---------------------------- MODULE GenCheckpoint ----------------------------
(* script generation for C04: every history of <= MaxSaves saves of states of the runs into one folder *)
EXTENDS Checkpoint, Json
VARIABLE saves
GInit == Init /\ saves = <<>>
GNext == \/ \E s \in States : BeginSave(s) /\ saves' = Append(saves, <<s.run, s.rows>>)
         \/ (Truncate \/ Finish \/ WriteH5 \/ EndSave) /\ UNCHANGED saves
Emit == (pc = "idle" /\ Len(saves) > 0) => PrintT(<<"SCRIPT", ToJson(saves)>>)
=============================================================================
