CONSTANTS
  Runs = {"A", "B"}
  MaxRows = 2
  MaxSaves = 2
  AppendInPlace = FALSE
  Crashes = TRUE
  CrossCheck = TRUE
  SqlDeleteInTxn = FALSE
INIT Init
NEXT Next
INVARIANT FailedSaveKeepsPrevious
