\* gen: RL: every agent choice sequence
CONSTANTS
  Configs <- Cfg_Gen_C09_rl
  BreakOnConverged = TRUE
  CkptBeforeBreak = TRUE
  SessionFinally = TRUE
  SeedOnlyAtZero = TRUE
  PersistTable = TRUE
  SeedsInParent = TRUE
INIT GInit
NEXT GNext
CONSTRAINT Bound
INVARIANT Emit
