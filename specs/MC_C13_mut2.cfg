CONSTANTS
  Starts = {0, 20, 65535}
  BatchSizes = {1, 2, 3}
  MaxBatches = 3
  Dims = 3
  CursorRule = "skip"
INIT Init
NEXT Next
INVARIANT Contiguous
INVARIANT Distinct
INVARIANT InUnitCube
