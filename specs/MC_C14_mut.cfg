\* mut: pinned design: break only if verbose
CONSTANTS
  Configs <- Cfg_MC_C14_mut
  BreakOnConverged = FALSE
  CkptBeforeBreak = TRUE
  SessionFinally = TRUE
  SeedOnlyAtZero = TRUE
  PersistTable = TRUE
  SeedsInParent = TRUE
INIT Init
NEXT Next
INVARIANT StopExactly
