CONSTANTS
  Universe = {1, 2, 3}
  MaxHist = 2
  BatchSizes = {1, 2}
  Budgets = {0, 1, 2}
  RedrawWhole = FALSE
  OffByOne = FALSE
INIT Init
NEXT Next
INVARIANT ShapePreserved
INVARIANT AskedExactlyRepeats
INVARIANT RepeatOnlyIfBudgetExhausted
INVARIANT FirstDrawKept
PROPERTY NonRepeatsUntouched
