\* mc: C14: no precision -> exactly n batches
CONSTANTS
  Configs <- Cfg_MC_C14_off
  BreakOnConverged = TRUE
  CkptBeforeBreak = TRUE
  SessionFinally = TRUE
  SeedOnlyAtZero = TRUE
  PersistTable = TRUE
  SeedsInParent = TRUE
INIT Init
NEXT Next
INVARIANT TypeOK
INVARIANT Aligned
INVARIANT Truthful
INVARIANT BatchesConsecutive
INVARIANT LabelNamesProducer
INVARIANT NoThreadLeft
INVARIANT StopExactly
INVARIANT TriggerBatchRecorded
