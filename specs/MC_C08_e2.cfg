CONSTANTS
  D = 2
  E = 2
  V = 2
  Weights = {0, 1, 2}
  KTables <- K2Fam
  FilterOn = "sim"
INIT Init
NEXT Next
INVARIANT MachineIsFold
INVARIANT Repeatable
INVARIANT WeightLinear
INVARIANT ZeroWeightDrops
INVARIANT CoordinatePermutation
