--------------------------- MODULE GridSnapTrace ---------------------------
(***************************************************************************)
(* Trace validation for C17: every recorded call of the real               *)
(* get_closest / digitize_data is checked against the property-level       *)
(* operator IsNearest of GridSnap (never against the algorithm).           *)
(* Events (integers = exactly scaled dyadic floats):                       *)
(*   closest  {g, v, out}          get_closest(g, v) = out   (vectors)     *)
(*   digitize {grids, data, out}   digitize_data(data, grids) = out        *)
(*   ranked   {n, oi, rank}        decimal grids: oi = 1-based position of *)
(*                                 the output in the grid (0: not in grid) *)
(*                                 rank[i] = rank of the exact distance of *)
(*                                 element i (0 = minimal, 1e-12 classes)  *)
(* A trace is a sequence of calls on one grid family; `prev` carries the   *)
(* previous output so that idempotence (snap of a snapped array is the     *)
(* array itself) is checked as an action property of consecutive events.   *)
(***************************************************************************)
EXTENDS Integers, Sequences, FiniteSets, TLC, Json, IOUtils

CONSTANTS GridUniverse, MaxLen, Values, StepRule
VARIABLES grid, v, idx, out, phase            \* the design machine (unused here, kept for reuse)
INSTANCE GridSnap

Doc    == JsonDeserialize(IOEnv.TRACE_FILE)
Traces == Doc.traces

VARIABLES tid, l, prev, drift
tvars == <<tid, l, prev, drift>>

Ev == Traces[tid][l]

ClosestOK(e) == /\ Len(e.out) = Len(e.v)
                /\ \A k \in 1..Len(e.v) : IsNearest(e.g, e.v[k], e.out[k])
ClosestDrift(e) == Cardinality({k \in 1..Len(e.v) : e.out[k] # Algo(e.g, e.v[k])})

DigitizeOK(e) == /\ Len(e.out) = Len(e.data)
                 /\ \A r \in 1..Len(e.data) :
                      /\ Len(e.out[r]) = Len(e.data[r])
                      /\ \A c \in 1..Len(e.data[r]) : IsNearest(e.grids[c], e.data[r][c], e.out[r][c])

RankedOK(e) == /\ e.oi \in 1..e.n
               /\ e.rank[e.oi] = 0

(* idempotence: an event flagged `again` re-snaps the previous output and must return it unchanged *)
AgainOK(e) == ("again" \in DOMAIN e /\ e.again) => e.out = prev

EvOK(e) == /\ CASE e.op = "closest"  -> ClosestOK(e)
                [] e.op = "digitize" -> DigitizeOK(e)
                [] e.op = "ranked"   -> RankedOK(e)
                [] OTHER -> FALSE
           /\ AgainOK(e)

Why(e) == CASE e.op = "closest" /\ ~ClosestOK(e)  -> "get_closest returned a value that is not a nearest grid element"
            [] e.op = "digitize" /\ ~DigitizeOK(e) -> "digitize_data returned a value that is not a nearest element of its own column grid (or changed shape)"
            [] e.op = "ranked" /\ ~RankedOK(e)     -> "output not an element of the grid or not of minimal exact distance"
            [] ~AgainOK(e)                         -> "snapping an already snapped array changed it (not idempotent)"
            [] OTHER -> "unknown event"

TInit == /\ tid \in 1..Len(Traces)
         /\ l = 1
         /\ prev = <<>>
         /\ drift = 0
         /\ grid = <<0>> /\ v = 0 /\ idx = -1 /\ out = -1 /\ phase = "done"

TNext == /\ l <= Len(Traces[tid])
         /\ EvOK(Ev)
         /\ l' = l + 1
         /\ prev' = IF Ev.op = "ranked" THEN prev ELSE Ev.out
         /\ drift' = drift + (IF Ev.op = "closest" THEN ClosestDrift(Ev) ELSE 0)
         /\ UNCHANGED <<tid, grid, v, idx, out, phase>>

Report == /\ (l = Len(Traces[tid]) + 1 => PrintT(<<"OK", tid>>))
          /\ (l = Len(Traces[tid]) + 1 /\ drift > 0 => PrintT(<<"DRIFT", tid, drift>>))
          /\ (l <= Len(Traces[tid]) /\ ~EvOK(Ev) => PrintT(<<"STUCK", tid, l, Why(Ev)>>))
=============================================================================
