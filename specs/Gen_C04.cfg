CONSTANTS
  Runs = {"A", "B"}
  MaxRows = 3
  MaxSaves = 3
  AppendInPlace = FALSE
  Crashes = FALSE
  CrossCheck = FALSE
  SqlDeleteInTxn = TRUE
INIT GInit
NEXT GNext
INVARIANT Emit
