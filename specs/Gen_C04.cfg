CONSTANTS
  Runs = {"A", "B", "A2"}
  Shared = {"A2"}
  MaxRows = 3
  MaxSaves = 3
  AppendInPlace = "prefix"
  Crashes = FALSE
  CrossCheck = FALSE
  SqlDeleteInTxn = TRUE
INIT GInit
NEXT GNext
INVARIANT Emit
