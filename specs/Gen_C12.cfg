CONSTANTS
  Universe = {1, 2, 3}
  MaxHist = 2
  BatchSizes = {1, 2}
  Budgets = {0, 1, 2}
  RedrawWhole = FALSE
  OffByOne = FALSE
INIT GInit
NEXT GNext
INVARIANT Emit
