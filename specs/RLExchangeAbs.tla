---------------------------- MODULE RLExchangeAbs ----------------------------
(***************************************************************************)
(* C10 for ANY number of sessions and batches.  RLExchange.tla counts      *)
(* sessions, batches and choices and keeps full histories, so TLC can only *)
(* explore it up to a bound.  This abstraction of the same protocol (same  *)
(* labels, same switches) is finite without any bound:                     *)
(*   - a session may follow a session forever, a batch a batch forever     *)
(*     (nondeterministic `more`);                                          *)
(*   - instead of unbounded ghost ids, a choice carries its sequence number *)
(*     modulo M (at most two choices can be in flight, M = 4 tells them    *)
(*     apart) and the epoch bit of the session it was made in;             *)
(*   - the histories are replaced by what the properties need: the number  *)
(*     (mod M) of the last choice executed and of the last choice learned, *)
(*     and sticky error flags.                                             *)
(* TLC explores the complete (finite) state graph: the invariants below    *)
(* hold for every number of sessions and every number of batches.          *)
(***************************************************************************)
EXTENDS Integers, Sequences, FiniteSets, TLC

CONSTANTS ExitOnFlag, LearnOnTerminal, DrainOnEnd
M == 4

(* --algorithm RLExchangeAbs {
variables actQ = <<>>,          \* <<seq mod M, epoch>>
          outQ = <<>>,          \* <<"out", seq mod M of the executed choice>> | <<"end">>
          stopped = TRUE, alive = FALSE, bestSet = FALSE,
          epoch = 0,            \* parity of the current session
          nextSeq = 0,          \* sequence number (mod M) of the next choice
          pendingExec = -1,     \* seq of the executed choice whose outcome has not been learned yet (-1: none)
          phantom = FALSE,      \* the agent learned from the end marker
          stale = FALSE,        \* the scheduler executed a choice made in an earlier session
          misattributed = FALSE,\* the agent credited an outcome to a choice other than the one that was executed
          lost = FALSE;         \* an executed choice was never learned from (overwritten while pending)

fair process (cal = "cal")
  variables more = TRUE, got = <<>>;
{
 Sess:   while (TRUE) {
           epoch := 1 - epoch;
 Start1:   stopped := FALSE;
 Start2:   alive := TRUE;
 Loop:     either { more := TRUE } or { more := FALSE };
 Body:     while (more) {
             if (bestSet) {
 Get:          await actQ # <<>>;
               got := Head(actQ);
               actQ := Tail(actQ);
               stale := stale \/ (got[2] # epoch);
               lost := lost \/ (pendingExec # -1);
               pendingExec := got[1];
             };
 Upd:        if (bestSet) { outQ := Append(outQ, <<"out", got[1]>>) } else { bestSet := TRUE };
 More:       either { more := TRUE } or { more := FALSE };
           };
 End1:     stopped := TRUE;
 End2:     outQ := Append(outQ, <<"end">>);
 Join:     await ~alive;
 Drain:    if (DrainOnEnd) { actQ := <<>> };
         }
}

fair process (agent = "agent")
  variables seq = 0, res = <<>>;
{
 Wait:   while (TRUE) {
           await alive;
 Chk:      if (ExitOnFlag /\ stopped) { goto Exit };
 Put:      seq := nextSeq;
           nextSeq := (nextSeq + 1) % M;
           actQ := Append(actQ, <<seq, epoch>>);
 Rcv:      await outQ # <<>>;
           res := Head(outQ);
           outQ := Tail(outQ);
           if (res[1] = "end") {
             phantom := phantom \/ LearnOnTerminal;
             if (ExitOnFlag) { goto Chk } else { goto Exit };
           } else {
             misattributed := misattributed \/ (res[2] # seq);
             pendingExec := IF pendingExec = res[2] THEN -1 ELSE pendingExec;
             goto Chk;
           };
 Exit:     alive := FALSE;
         }
}
} *)
\* BEGIN TRANSLATION
VARIABLES pc, actQ, outQ, stopped, alive, bestSet, epoch, nextSeq, 
          pendingExec, phantom, stale, misattributed, lost, more, got, seq, 
          res

vars == << pc, actQ, outQ, stopped, alive, bestSet, epoch, nextSeq, 
           pendingExec, phantom, stale, misattributed, lost, more, got, seq, 
           res >>

ProcSet == {"cal"} \cup {"agent"}

Init == (* Global variables *)
        /\ actQ = <<>>
        /\ outQ = <<>>
        /\ stopped = TRUE
        /\ alive = FALSE
        /\ bestSet = FALSE
        /\ epoch = 0
        /\ nextSeq = 0
        /\ pendingExec = -1
        /\ phantom = FALSE
        /\ stale = FALSE
        /\ misattributed = FALSE
        /\ lost = FALSE
        (* Process cal *)
        /\ more = TRUE
        /\ got = <<>>
        (* Process agent *)
        /\ seq = 0
        /\ res = <<>>
        /\ pc = [self \in ProcSet |-> CASE self = "cal" -> "Sess"
                                        [] self = "agent" -> "Wait"]

Sess == /\ pc["cal"] = "Sess"
        /\ epoch' = 1 - epoch
        /\ pc' = [pc EXCEPT !["cal"] = "Start1"]
        /\ UNCHANGED << actQ, outQ, stopped, alive, bestSet, nextSeq, 
                        pendingExec, phantom, stale, misattributed, lost, more, 
                        got, seq, res >>

Start1 == /\ pc["cal"] = "Start1"
          /\ stopped' = FALSE
          /\ pc' = [pc EXCEPT !["cal"] = "Start2"]
          /\ UNCHANGED << actQ, outQ, alive, bestSet, epoch, nextSeq, 
                          pendingExec, phantom, stale, misattributed, lost, 
                          more, got, seq, res >>

Start2 == /\ pc["cal"] = "Start2"
          /\ alive' = TRUE
          /\ pc' = [pc EXCEPT !["cal"] = "Loop"]
          /\ UNCHANGED << actQ, outQ, stopped, bestSet, epoch, nextSeq, 
                          pendingExec, phantom, stale, misattributed, lost, 
                          more, got, seq, res >>

Loop == /\ pc["cal"] = "Loop"
        /\ \/ /\ more' = TRUE
           \/ /\ more' = FALSE
        /\ pc' = [pc EXCEPT !["cal"] = "Body"]
        /\ UNCHANGED << actQ, outQ, stopped, alive, bestSet, epoch, nextSeq, 
                        pendingExec, phantom, stale, misattributed, lost, got, 
                        seq, res >>

Body == /\ pc["cal"] = "Body"
        /\ IF more
              THEN /\ IF bestSet
                         THEN /\ pc' = [pc EXCEPT !["cal"] = "Get"]
                         ELSE /\ pc' = [pc EXCEPT !["cal"] = "Upd"]
              ELSE /\ pc' = [pc EXCEPT !["cal"] = "End1"]
        /\ UNCHANGED << actQ, outQ, stopped, alive, bestSet, epoch, nextSeq, 
                        pendingExec, phantom, stale, misattributed, lost, more, 
                        got, seq, res >>

Upd == /\ pc["cal"] = "Upd"
       /\ IF bestSet
             THEN /\ outQ' = Append(outQ, <<"out", got[1]>>)
                  /\ UNCHANGED bestSet
             ELSE /\ bestSet' = TRUE
                  /\ outQ' = outQ
       /\ pc' = [pc EXCEPT !["cal"] = "More"]
       /\ UNCHANGED << actQ, stopped, alive, epoch, nextSeq, pendingExec, 
                       phantom, stale, misattributed, lost, more, got, seq, 
                       res >>

More == /\ pc["cal"] = "More"
        /\ \/ /\ more' = TRUE
           \/ /\ more' = FALSE
        /\ pc' = [pc EXCEPT !["cal"] = "Body"]
        /\ UNCHANGED << actQ, outQ, stopped, alive, bestSet, epoch, nextSeq, 
                        pendingExec, phantom, stale, misattributed, lost, got, 
                        seq, res >>

Get == /\ pc["cal"] = "Get"
       /\ actQ # <<>>
       /\ got' = Head(actQ)
       /\ actQ' = Tail(actQ)
       /\ stale' = (stale \/ (got'[2] # epoch))
       /\ lost' = (lost \/ (pendingExec # -1))
       /\ pendingExec' = got'[1]
       /\ pc' = [pc EXCEPT !["cal"] = "Upd"]
       /\ UNCHANGED << outQ, stopped, alive, bestSet, epoch, nextSeq, phantom, 
                       misattributed, more, seq, res >>

End1 == /\ pc["cal"] = "End1"
        /\ stopped' = TRUE
        /\ pc' = [pc EXCEPT !["cal"] = "End2"]
        /\ UNCHANGED << actQ, outQ, alive, bestSet, epoch, nextSeq, 
                        pendingExec, phantom, stale, misattributed, lost, more, 
                        got, seq, res >>

End2 == /\ pc["cal"] = "End2"
        /\ outQ' = Append(outQ, <<"end">>)
        /\ pc' = [pc EXCEPT !["cal"] = "Join"]
        /\ UNCHANGED << actQ, stopped, alive, bestSet, epoch, nextSeq, 
                        pendingExec, phantom, stale, misattributed, lost, more, 
                        got, seq, res >>

Join == /\ pc["cal"] = "Join"
        /\ ~alive
        /\ pc' = [pc EXCEPT !["cal"] = "Drain"]
        /\ UNCHANGED << actQ, outQ, stopped, alive, bestSet, epoch, nextSeq, 
                        pendingExec, phantom, stale, misattributed, lost, more, 
                        got, seq, res >>

Drain == /\ pc["cal"] = "Drain"
         /\ IF DrainOnEnd
               THEN /\ actQ' = <<>>
               ELSE /\ TRUE
                    /\ actQ' = actQ
         /\ pc' = [pc EXCEPT !["cal"] = "Sess"]
         /\ UNCHANGED << outQ, stopped, alive, bestSet, epoch, nextSeq, 
                         pendingExec, phantom, stale, misattributed, lost, 
                         more, got, seq, res >>

cal == Sess \/ Start1 \/ Start2 \/ Loop \/ Body \/ Upd \/ More \/ Get
          \/ End1 \/ End2 \/ Join \/ Drain

Wait == /\ pc["agent"] = "Wait"
        /\ alive
        /\ pc' = [pc EXCEPT !["agent"] = "Chk"]
        /\ UNCHANGED << actQ, outQ, stopped, alive, bestSet, epoch, nextSeq, 
                        pendingExec, phantom, stale, misattributed, lost, more, 
                        got, seq, res >>

Chk == /\ pc["agent"] = "Chk"
       /\ IF ExitOnFlag /\ stopped
             THEN /\ pc' = [pc EXCEPT !["agent"] = "Exit"]
             ELSE /\ pc' = [pc EXCEPT !["agent"] = "Put"]
       /\ UNCHANGED << actQ, outQ, stopped, alive, bestSet, epoch, nextSeq, 
                       pendingExec, phantom, stale, misattributed, lost, more, 
                       got, seq, res >>

Put == /\ pc["agent"] = "Put"
       /\ seq' = nextSeq
       /\ nextSeq' = (nextSeq + 1) % M
       /\ actQ' = Append(actQ, <<seq', epoch>>)
       /\ pc' = [pc EXCEPT !["agent"] = "Rcv"]
       /\ UNCHANGED << outQ, stopped, alive, bestSet, epoch, pendingExec, 
                       phantom, stale, misattributed, lost, more, got, res >>

Rcv == /\ pc["agent"] = "Rcv"
       /\ outQ # <<>>
       /\ res' = Head(outQ)
       /\ outQ' = Tail(outQ)
       /\ IF res'[1] = "end"
             THEN /\ phantom' = (phantom \/ LearnOnTerminal)
                  /\ IF ExitOnFlag
                        THEN /\ pc' = [pc EXCEPT !["agent"] = "Chk"]
                        ELSE /\ pc' = [pc EXCEPT !["agent"] = "Exit"]
                  /\ UNCHANGED << pendingExec, misattributed >>
             ELSE /\ misattributed' = (misattributed \/ (res'[2] # seq))
                  /\ pendingExec' = (IF pendingExec = res'[2] THEN -1 ELSE pendingExec)
                  /\ pc' = [pc EXCEPT !["agent"] = "Chk"]
                  /\ UNCHANGED phantom
       /\ UNCHANGED << actQ, stopped, alive, bestSet, epoch, nextSeq, stale, 
                       lost, more, got, seq >>

Exit == /\ pc["agent"] = "Exit"
        /\ alive' = FALSE
        /\ pc' = [pc EXCEPT !["agent"] = "Wait"]
        /\ UNCHANGED << actQ, outQ, stopped, bestSet, epoch, nextSeq, 
                        pendingExec, phantom, stale, misattributed, lost, more, 
                        got, seq, res >>

agent == Wait \/ Chk \/ Put \/ Rcv \/ Exit

Next == cal \/ agent

Spec == /\ Init /\ [][Next]_vars
        /\ WF_vars(cal)
        /\ WF_vars(agent)

\* END TRANSLATION

Between == pc["cal"] = "Sess"
NoPhantomLearn == ~phantom
NoStaleAction == ~stale
Attribution == ~misattributed
NothingLost == ~lost
NoLeftover == Between => actQ = <<>> /\ outQ = <<>> /\ ~alive
AllLearned == Between => pendingExec = -1
QueuesBounded == Len(actQ) <= 1 /\ Len(outQ) <= 2
(* progress (weak fairness of both threads): a scheduler waiting for the agent's choice gets one, a join returns *)
GetsAnAction == (pc["cal"] = "Get") ~> (pc["cal"] = "Upd")
JoinReturns == (pc["cal"] = "Join") ~> (pc["cal"] = "Drain")
=============================================================================
