----------------------------- MODULE Calibration -----------------------------
(***************************************************************************)
(* The life of a black-it Calibrator (black_it/calibrator.py), one action  *)
(* per statement group of calibrate():                                     *)
(*                                                                         *)
(*   Calibrate(n) -> [SeedCascade] -> StartSession -> Loop ->              *)
(*     Pick -> Sample -> DrawSeeds -> Complete(j,e)* -> Loss(j)* ->        *)
(*     Append -> Update -> ConvCheck -> Checkpoint -> Loop ...             *)
(*   -> EndSession -> Return                                               *)
(*   Fault(at) -> Unwind -> (raised)      an exception out of a plug-in    *)
(*   CreateCheckpoint, Restore, SetSamplers(l)   between calls             *)
(*                                                                         *)
(* Values are symbolic so that the properties can talk about *which*       *)
(* sampler / seed / series / loss ended up where:                          *)
(*   a parameter vector is  <<s, root, k, j>>  = row j of the k-th batch   *)
(*       drawn from sampler object s whose generator is rooted at `root`   *)
(*       ("cal" after the seed cascade, "ctor" for a constructor seed);    *)
(*   a simulation seed is its position in the calibrator's seed stream;    *)
(*   a series is [p |-> parameter vector, seeds |-> <<seed_1..seed_E>>];   *)
(*   a loss is an integer a standing for a*10^-(p+1): it rounds to zero at *)
(*       p decimals iff a \in -4..4.                                       *)
(*                                                                         *)
(* Properties C01 C02 C05 C09 C11 C14 C18 (and the calibrate/return part   *)
(* of C04) are invariants / action properties of this machine; the trace   *)
(* specification CalibrationTrace.tla re-uses the actions below to         *)
(* validate executions of the real Calibrator.                             *)
(***************************************************************************)
EXTENDS Integers, Sequences, FiniteSets, TLC

CONSTANTS
  Configs,           \* set of configuration records explored (see the field list under K below)
  \* ---- design switches: TRUE selects the behaviour the properties require, FALSE the pinned (pre-fix) code
  BreakOnConverged,  \* TRUE: stop when converged;        FALSE: stop only when converged AND verbose
  CkptBeforeBreak,   \* TRUE: checkpoint, then break;     FALSE: break skips the checkpoint of the triggering batch
  SessionFinally,    \* TRUE: end_session on every exit;  FALSE: an exception skips end_session
  SeedOnlyAtZero,    \* TRUE: seed cascade only when current_batch_index = 0;  FALSE: at every calibrate()
  PersistTable,      \* TRUE: the id table survives a restore;  FALSE: rebuilt from the restored line-up
  SeedsInParent      \* TRUE: simulation seeds drawn before dispatch, in task order;  FALSE: drawn by whichever run finishes first

VARIABLES
  K,         \* the configuration of this calibration (chosen once, never changes):
             \*   lineup     initial line-up  << [cls |-> "A", bs |-> 2], ... >>
             \*   alts       set of line-ups SetSamplers may install ({} disables the action)
             \*   kind       "rr" (sampler list / round robin) | "rl" (RL scheduler, abstract agent)
             \*   E          ensemble size
             \*   callsizes  admissible arguments of calibrate(n);  maxbatches, maxcalls: exploration bounds
             \*   lossvals   abstract losses a scripted model may produce
             \*   convon     a convergence precision is configured
             \*   verboses, savings, njobs   sets of values explored for the axes C01 declares irrelevant
             \*   faultsat   subset of {"sampler", "model", "loss"}: plug-ins that may raise
             \*   restore    CreateCheckpoint / Restore enabled
             \*   burn       draws the seed cascade takes from the calibrator's generator (the code: one per sampler; no
             \*              property depends on the number - MC_C01 explores several)
  pc,        \* control state of the calibrator object
  cfg,       \* [verbose, saving, njobs]  chosen once (irrelevant axes)
  todo,      \* batches still to run in the current call
  call,      \* [start |-> batch index when calibrate() was called, n |-> its argument]  (None before the first call)
  bi,        \* current_batch_index
  ns,        \* n_sampled_params
  hist,      \* the history: Seq([par, ser, loss, batch, meth, cls])
  cur,       \* batch in flight
  rng,       \* number of draws taken so far from the calibrator's generator
  samp,      \* per sampler object of the current line-up: [root, k]
  served,    \* round-robin: batches served by the scheduler object
  best,      \* RL: best loss seen by the scheduler (None before the bootstrap batch was scored)
  line,      \* current line-up (changes with SetSamplers / Restore)
  idt,       \* samplers_id_table: function  class name -> id
  disk,      \* None | Some(the checkpoint in the saving folder)
  alive,     \* RL: agent thread running
  brk,       \* convergence break pending
  calls,     \* number of calibrate() calls so far
  outcome,   \* last public call: "none" | "returned" | "raised"
  clean      \* no calibrate() has been started after a fault (the run is still comparable with the fault-free reference)

vars == <<K, pc, cfg, todo, call, bi, ns, hist, cur, rng, samp, served, best, line, idt, disk, alive, brk, calls, outcome, clean>>

LineUp == K.lineup
AltLineUps == K.alts
Kind == K.kind
E == K.E
CallSizes == K.callsizes
MaxBatches == K.maxbatches
MaxCalls == K.maxcalls
LossVals == K.lossvals
ConvOn == K.convon
Verboses == K.verboses
Savings == K.savings
NJobsSet == K.njobs
FaultsAt == K.faultsat
AllowRestore == K.restore
Burn == K.burn

None == <<>>          \* optional values are sequences of length 0 or 1 (TLC cannot compare a record with a string)
Some(x) == <<x>>
NoCur == [s |-> 0, pars |-> <<>>, seeds |-> <<>>, done |-> {}, losses |-> <<>>, fat |-> "none"]

(* ---------------------------------------------------------------------------------------- *)
(* helpers                                                                                   *)
(* ---------------------------------------------------------------------------------------- *)
Min(S) == CHOOSE x \in S : \A y \in S : x <= y
Max(S) == CHOOSE x \in S : \A y \in S : x >= y
RoundsToZero(a) == a \in -4..4
Classes(l) == {l[i].cls : i \in 1..Len(l)}

(* first-seen numbering of a line-up (Calibrator._construct_samplers_id_table) *)
RECURSIVE ConstructFrom(_, _, _)
ConstructFrom(l, i, t) ==
  IF i > Len(l) THEN t
  ELSE IF l[i].cls \in DOMAIN t THEN ConstructFrom(l, i + 1, t)
       ELSE ConstructFrom(l, i + 1, t @@ (l[i].cls :> Cardinality(DOMAIN t)))
EmptyFn == [x \in {} |-> 0]
Construct(l) == ConstructFrom(l, 1, EmptyFn)

(* update_samplers_id_table: new classes get max+1, max+2, ... in line-up order; nothing is renumbered *)
RECURSIVE ExtendFrom(_, _, _, _)
ExtendFrom(l, i, t, nxt) ==
  IF i > Len(l) THEN t
  ELSE IF l[i].cls \in DOMAIN t THEN ExtendFrom(l, i + 1, t, nxt)
       ELSE ExtendFrom(l, i + 1, t @@ (l[i].cls :> nxt), nxt + 1)
Extend(t, l) == ExtendFrom(l, 1, t, Max({t[c] : c \in DOMAIN t}) + 1)

FreshSamp(l) == [i \in 1..Len(l) |-> [root |-> "ctor", k |-> 0]]

(* RL: index of the bootstrap sampler: the line-up's "HaltonSampler" if present (last one when repeated, as the code's dict does) *)
HaltonIdx(l) == IF \E i \in 1..Len(l) : l[i].cls = "HaltonSampler"
                THEN Max({i \in 1..Len(l) : l[i].cls = "HaltonSampler"}) ELSE 0
(* the RL scheduler appends a Halton(batch_size 1) when the supplied set has none *)
Effective(l) == IF Kind = "rl" /\ HaltonIdx(l) = 0 THEN Append(l, [cls |-> "HaltonSampler", bs |-> 1]) ELSE l

Snapshot == [bi |-> bi, ns |-> ns, hist |-> hist, rng |-> rng, samp |-> samp, served |-> served,
             best |-> best, line |-> line, idt |-> idt, clean |-> clean]

MinLoss(h) == Min({h[i].loss : i \in 1..Len(h)})

(* ---------------------------------------------------------------------------------------- *)
(* initial state                                                                             *)
(* ---------------------------------------------------------------------------------------- *)
Init ==
  /\ K \in Configs
  /\ pc = "idle"
  /\ cfg \in [verbose : Verboses, saving : Savings, njobs : NJobsSet]
  /\ todo = 0 /\ call = None /\ bi = 0 /\ ns = 0 /\ hist = <<>> /\ cur = NoCur
  /\ rng = 0
  /\ line = Effective(LineUp)
  /\ samp = FreshSamp(Effective(LineUp))
  /\ served = 0 /\ best = None
  /\ idt = Construct(Effective(LineUp))
  /\ disk = None /\ alive = FALSE /\ brk = FALSE /\ calls = 0 /\ outcome = "none" /\ clean = TRUE

(* ---------------------------------------------------------------------------------------- *)
(* calibrate(n)                                                                              *)
(* ---------------------------------------------------------------------------------------- *)
Calibrate(n) ==
  /\ pc \in {"idle", "raised"}
  /\ calls < MaxCalls
  /\ bi + n <= MaxBatches
  /\ calls' = calls + 1
  /\ todo' = n
  /\ call' = Some([start |-> bi, n |-> n])
  /\ brk' = FALSE
  /\ outcome' = "none"
  /\ pc' = IF bi = 0 \/ ~SeedOnlyAtZero THEN "seed" ELSE "start"
  /\ clean' = (clean /\ pc = "idle")
  /\ UNCHANGED <<cfg, bi, ns, hist, cur, rng, samp, served, best, line, idt, disk, alive>>

(* Calibrator._set_samplers_seeds: the scheduler's generator is re-rooted at the calibrator seed and hands one
   seed to every sampler (which also resets sequence cursors: k := 0); the calibrator burns Burn draws (one per sampler in the code) *)
SeedCascade ==
  /\ pc = "seed"
  /\ samp' = [i \in 1..Len(line) |-> [root |-> "cal", k |-> 0]]
  /\ rng' = rng + Burn
  /\ pc' = "start"
  /\ UNCHANGED <<cfg, todo, call, bi, ns, hist, cur, served, best, line, idt, disk, alive, brk, calls, outcome, clean>>

(* scheduler.session().__enter__ : RL starts the agent thread; a session that is already running is an error *)
StartSession ==
  /\ pc = "start"
  /\ IF Kind = "rl" /\ alive
       THEN pc' = "refused" /\ UNCHANGED alive       \* "cannot start session: the session has already started"
       ELSE pc' = "loop" /\ alive' = (Kind = "rl")
  /\ UNCHANGED <<cfg, todo, call, bi, ns, hist, cur, rng, samp, served, best, line, idt, disk, brk, calls, outcome, clean>>

(* the refusal propagates out of calibrate() *)
Refuse ==
  /\ pc = "refused"
  /\ pc' = "raised"
  /\ outcome' = "raised"
  /\ todo' = 0
  /\ UNCHANGED <<cfg, call, bi, ns, hist, cur, rng, samp, served, best, line, idt, disk, alive, brk, calls, clean>>

Loop ==
  /\ pc = "loop"
  /\ pc' = IF todo = 0 \/ brk THEN "end" ELSE "pick"
  /\ UNCHANGED <<cfg, todo, call, bi, ns, hist, cur, rng, samp, served, best, line, idt, disk, alive, brk, calls, outcome, clean>>

(* scheduler.get_next_sampler() *)
Pick ==
  /\ pc = "pick"
  /\ \E s \in 1..Len(line) :
       /\ IF Kind = "rr" THEN s = (served % Len(line)) + 1
          ELSE IF best = None THEN s = HaltonIdx(line)       \* bootstrap batch
          ELSE TRUE                                          \* the agent's choice: any sampler of the set
       /\ cur' = [NoCur EXCEPT !.s = s]
  /\ pc' = "sample"
  /\ UNCHANGED <<cfg, todo, call, bi, ns, hist, rng, samp, served, best, line, idt, disk, alive, brk, calls, outcome, clean>>

(* method.sample(...): bs rows from the sampler's own stream, which advances by one batch *)
Sample ==
  /\ pc = "sample"
  /\ LET s == cur.s IN
       /\ cur' = [cur EXCEPT !.pars = [j \in 1..line[s].bs |-> <<s, samp[s].root, samp[s].k, j>>]]
       /\ samp' = [samp EXCEPT ![s].k = @ + 1]
  /\ pc' = "seeds"
  /\ UNCHANGED <<cfg, todo, call, bi, ns, hist, rng, served, best, line, idt, disk, alive, brk, calls, outcome, clean>>

(* simulate_model: one seed per (row, member), drawn in the parent process, in task order, before dispatch *)
DrawSeeds ==
  /\ pc = "seeds"
  /\ LET n == Len(cur.pars) IN
       /\ cur' = [cur EXCEPT !.seeds = [j \in 1..n |-> [e \in 1..E |-> IF SeedsInParent THEN rng + (j - 1) * E + e ELSE 0]]]
       /\ rng' = IF SeedsInParent THEN rng + n * E ELSE rng
  /\ pc' = "sim"
  /\ UNCHANGED <<cfg, todo, call, bi, ns, hist, samp, served, best, line, idt, disk, alive, brk, calls, outcome, clean>>

Tasks == {<<j, e>> : j \in 1..Len(cur.pars), e \in 1..E}
TaskNo(t) == (t[1] - 1) * E + t[2]
(* a worker finishes one model run; with one job they finish in task order, otherwise in any order *)
Complete(t) ==
  /\ pc = "sim"
  /\ t \in Tasks \ cur.done
  /\ cfg.njobs = 1 => \A u \in Tasks \ cur.done : TaskNo(t) <= TaskNo(u)
  /\ cur' = [cur EXCEPT !.done = @ \cup {t},
                         !.seeds[t[1]][t[2]] = IF SeedsInParent THEN @ ELSE rng + 1]
  /\ rng' = IF SeedsInParent THEN rng ELSE rng + 1
  /\ pc' = IF cur.done \cup {t} = Tasks THEN "loss" ELSE "sim"
  /\ UNCHANGED <<cfg, todo, call, bi, ns, hist, samp, served, best, line, idt, disk, alive, brk, calls, outcome, clean>>

(* loss_function.compute_loss on the E series of row j (rows in order) *)
Loss(a) ==
  /\ pc = "loss"
  /\ cur' = [cur EXCEPT !.losses = Append(@, a)]
  /\ pc' = IF Len(cur.losses) + 1 = Len(cur.pars) THEN "append" ELSE "loss"
  /\ UNCHANGED <<cfg, todo, call, bi, ns, hist, rng, samp, served, best, line, idt, disk, alive, brk, calls, outcome, clean>>

NewRows == [j \in 1..Len(cur.pars) |->
              [par |-> cur.pars[j], ser |-> [p |-> cur.pars[j], seeds |-> cur.seeds[j]], loss |-> cur.losses[j],
               batch |-> bi, meth |-> idt[line[cur.s].cls], cls |-> line[cur.s].cls]]

(* the five arrays are extended together, then the sample counter *)
AppendRows ==
  /\ pc = "append"
  /\ hist' = hist \o NewRows
  /\ ns' = ns + Len(cur.pars)
  /\ pc' = "update"
  /\ UNCHANGED <<cfg, todo, call, bi, cur, rng, samp, served, best, line, idt, disk, alive, brk, calls, outcome, clean>>

(* scheduler.update(...), then current_batch_index += 1 *)
Update ==
  /\ pc = "update"
  /\ served' = served + 1
  /\ best' = IF Kind = "rl" THEN (IF best = None THEN Some(Min({cur.losses[j] : j \in 1..Len(cur.losses)}))
                                   ELSE Some(Min({best[1]} \cup {cur.losses[j] : j \in 1..Len(cur.losses)})))
             ELSE best
  /\ bi' = bi + 1
  /\ todo' = todo - 1
  /\ cur' = NoCur
  /\ pc' = "conv"
  /\ UNCHANGED <<cfg, call, ns, hist, rng, samp, line, idt, disk, alive, brk, calls, outcome, clean>>

Converged == ConvOn /\ RoundsToZero(MinLoss(hist))

(* convergence check and end-of-batch checkpoint (calibrator.py:451-464) *)
ConvCheck ==
  /\ pc = "conv"
  /\ LET stop == Converged /\ (BreakOnConverged \/ cfg.verbose) IN
       /\ brk' = stop
       /\ pc' = IF stop /\ ~CkptBeforeBreak THEN "loop" ELSE "ckpt"
  /\ UNCHANGED <<cfg, todo, call, bi, ns, hist, cur, rng, samp, served, best, line, idt, disk, alive, calls, outcome, clean>>

Checkpoint ==
  /\ pc = "ckpt"
  /\ disk' = IF cfg.saving THEN Some(Snapshot) ELSE disk
  /\ pc' = "loop"
  /\ UNCHANGED <<cfg, todo, call, bi, ns, hist, cur, rng, samp, served, best, line, idt, alive, brk, calls, outcome, clean>>

(* scheduler.session().__exit__ : RL sets the flag, posts the end marker, joins the agent thread *)
EndSession ==
  /\ pc = "end"
  /\ alive' = FALSE
  /\ pc' = "ret"
  /\ UNCHANGED <<cfg, todo, call, bi, ns, hist, cur, rng, samp, served, best, line, idt, disk, brk, calls, outcome, clean>>

Return ==
  /\ pc = "ret"
  /\ pc' = "idle"
  /\ outcome' = "returned"
  /\ todo' = 0
  /\ UNCHANGED <<cfg, call, bi, ns, hist, cur, rng, samp, served, best, line, idt, disk, alive, brk, calls, clean>>

(* ---------------------------------------------------------------------------------------- *)
(* faults: a plug-in raises                                                                  *)
(* ---------------------------------------------------------------------------------------- *)
Fault(at) ==
  /\ at \in FaultsAt
  /\ \/ at = "sampler" /\ pc = "sample"
     \/ at = "model" /\ pc = "sim"
     \/ at = "loss" /\ pc = "loss"
  /\ cur' = [cur EXCEPT !.fat = at]
  /\ pc' = "unwind"
  /\ UNCHANGED <<cfg, todo, call, bi, ns, hist, rng, samp, served, best, line, idt, disk, alive, brk, calls, outcome, clean>>

(* the exception leaves the `with scheduler.session()` block and calibrate() *)
Unwind ==
  /\ pc = "unwind"
  /\ alive' = IF SessionFinally THEN FALSE ELSE alive
  (* seeds are produced lazily while tasks are dispatched: when a model run raises, the generator has handed out
     the seeds of the runs dispatched so far - any number between those completed and the whole batch *)
  /\ IF cur.fat = "model" /\ SeedsInParent
       THEN \E r \in (rng - Len(cur.pars) * E + Cardinality(cur.done))..rng : rng' = r
       ELSE rng' = rng
  /\ cur' = NoCur
  /\ todo' = 0
  /\ pc' = "raised"
  /\ outcome' = "raised"
  /\ UNCHANGED <<cfg, call, bi, ns, hist, samp, served, best, line, idt, disk, brk, calls, clean>>

(* ---------------------------------------------------------------------------------------- *)
(* between calls                                                                             *)
(* ---------------------------------------------------------------------------------------- *)
CreateCheckpoint ==
  /\ AllowRestore
  /\ pc \in {"idle", "raised"}
  /\ disk' = Some([Snapshot EXCEPT !.clean = clean /\ pc = "idle"])    \* a checkpoint of a faulted object is not "clean"
  /\ UNCHANGED <<pc, cfg, todo, call, bi, ns, hist, cur, rng, samp, served, best, line, idt, alive, brk, calls, outcome, clean>>

(* Calibrator.restore_from_checkpoint: a new object built from what is on disk *)
Restore ==
  /\ AllowRestore
  /\ pc \in {"idle", "raised"}
  /\ disk # None
  /\ LET d == disk[1] IN
       /\ bi' = d.bi /\ ns' = d.ns /\ hist' = d.hist /\ rng' = d.rng /\ samp' = d.samp
       /\ served' = d.served /\ best' = d.best /\ line' = d.line
       /\ idt' = IF PersistTable THEN d.idt ELSE Construct(d.line)
  /\ pc' = "idle" /\ alive' = FALSE /\ cur' = NoCur /\ todo' = 0 /\ brk' = FALSE
  /\ call' = None /\ outcome' = "none"
  /\ clean' = disk[1].clean
  /\ UNCHANGED <<cfg, disk, calls>>

(* Calibrator.set_samplers: new sampler objects (constructor seeds), table only ever extended *)
SetSamplers(l) ==
  /\ l \in AltLineUps
  /\ pc = "idle"
  /\ line' = l
  /\ samp' = FreshSamp(l)
  /\ idt' = Extend(idt, l)
  /\ call' = None
  /\ UNCHANGED <<pc, cfg, todo, bi, ns, hist, cur, rng, served, best, disk, alive, brk, calls, outcome, clean>>

(* Calibrator.set_scheduler: a new scheduler object (its own position starts at 0) with its own samplers; table only ever extended *)
SetScheduler(l) ==
  /\ l \in AltLineUps
  /\ pc = "idle"
  /\ Kind = "rr"
  /\ line' = l
  /\ samp' = FreshSamp(l)
  /\ served' = 0
  /\ idt' = Extend(idt, l)
  /\ call' = None
  /\ UNCHANGED <<pc, cfg, todo, bi, ns, hist, cur, rng, best, disk, alive, brk, calls, outcome, clean>>

Step ==
  \/ \E n \in CallSizes : Calibrate(n)
  \/ SeedCascade \/ StartSession \/ Refuse \/ Loop \/ Pick \/ Sample \/ DrawSeeds
  \/ \E t \in Tasks : Complete(t)
  \/ \E a \in LossVals : Loss(a)
  \/ AppendRows \/ Update \/ ConvCheck \/ Checkpoint \/ EndSession \/ Return
  \/ \E at \in FaultsAt : Fault(at)
  \/ Unwind \/ CreateCheckpoint \/ Restore
  \/ \E l \in AltLineUps : SetSamplers(l)
  \/ \E l \in AltLineUps : SetScheduler(l)

Next == Step /\ UNCHANGED K

Spec == Init /\ [][Next]_vars

(* ======================================================================================== *)
(* properties                                                                                *)
(* ======================================================================================== *)
Rows == 1..Len(hist)
AtRest == pc \in {"idle", "raised"}

TypeOK == /\ pc \in {"idle", "seed", "start", "loop", "pick", "sample", "seeds", "sim", "loss", "append", "update",
                     "conv", "ckpt", "end", "ret", "unwind", "refused", "raised"}
          /\ bi \in 0..MaxBatches /\ todo \in 0..MaxBatches /\ ns >= 0

(* ---- C02 ---------------------------------------------------------------------------------- *)
Aligned  == AtRest => ns = Len(hist)
Truthful == \A i \in Rows :
              /\ hist[i].ser.p = hist[i].par                                   \* the model ran on exactly that vector
              /\ Len(hist[i].ser.seeds) = E                                    \* once per ensemble member
              /\ hist[i].meth = idt[hist[i].cls]                               \* label of the designated sampler's class
              /\ (i = 1 => hist[i].batch = 0)
              /\ (i > 1 => hist[i].batch \in {hist[i - 1].batch, hist[i - 1].batch + 1})
BatchesConsecutive == AtRest /\ Len(hist) > 0 => hist[Len(hist)].batch = bi - 1
IsPrefix(a, b) == Len(a) <= Len(b) /\ \A i \in 1..Len(a) : a[i] = b[i]
(* rows once recorded never change while a calibrator object lives; Restore builds a new object from the checkpoint *)
AppendOnly == [][Restore \/ IsPrefix(hist, hist')]_vars

(* ---- C01 / C05: the observable history is a function of the configuration only ---------------- *)
(* reference = the uninterrupted, fault-free, single-worker round-robin run with the initial line-up *)
RefS(b)  == (b % Len(LineUp)) + 1
RefK(b)  == b \div Len(LineUp)
RECURSIVE RowsBefore(_)
RowsBefore(b) == IF b = 0 THEN 0 ELSE RowsBefore(b - 1) + LineUp[RefS(b - 1)].bs
RefRow(b, j, lossOf) ==
  LET s == RefS(b)
      par == <<s, "cal", RefK(b), j>>
      g == RowsBefore(b) + j          \* global row number
  IN [par |-> par,
      ser |-> [p |-> par, seeds |-> [e \in 1..E |-> Burn + (g - 1) * E + e]],
      loss |-> lossOf, batch |-> b, meth |-> Construct(LineUp)[LineUp[s].cls], cls |-> LineUp[s].cls]
(* hist matches the reference in everything but the (scripted, nondeterministic) loss value *)
MatchesRef == \A i \in Rows :
                LET b == hist[i].batch
                    j == i - RowsBefore(b)
                IN  /\ j \in 1..LineUp[RefS(b)].bs
                    /\ hist[i] = RefRow(b, j, hist[i].loss)
ObservableIsRef == (Kind = "rr" /\ AltLineUps = {} /\ clean) =>
                      /\ MatchesRef
                      /\ (AtRest => Len(hist) = RowsBefore(bi))
NoCtorRoot == bi > 0 /\ AltLineUps = {} => \A s \in 1..Len(line) : samp[s].root = "cal"

(* ---- C09 ---------------------------------------------------------------------------------- *)
RoundRobin == (Kind = "rr" /\ AltLineUps = {}) =>
                 \A i \in Rows : /\ hist[i].par[1] = (hist[i].batch % Len(LineUp)) + 1
                                 /\ hist[i].cls = LineUp[(hist[i].batch % Len(LineUp)) + 1].cls
BatchSizes == AltLineUps = {} =>
                \A b \in 0..bi - 1 :
                   LET rows == {i \in Rows : hist[i].batch = b}
                   IN  \A i \in rows : Cardinality(rows) = line[hist[i].par[1]].bs
RLBootstrap == Kind = "rl" =>
                 /\ \A i \in Rows : hist[i].batch = 0 => hist[i].cls = "HaltonSampler"
                 /\ \A i \in Rows : hist[i].par[1] \in 1..Len(line)
                 /\ Classes(line) \subseteq Classes(LineUp) \cup {"HaltonSampler"}

(* the constructor accepts exactly one of a sampler list or a scheduler (4-row decision table) *)
CtorOutcome(hasSamplers, hasScheduler) == IF hasSamplers # hasScheduler THEN "ok" ELSE "ValueError"

(* ---- C14 ---------------------------------------------------------------------------------- *)
MinUpTo(b) == Min({hist[i].loss : i \in {r \in Rows : hist[r].batch <= b}})
(* number of batches the last call should have run: up to and including the first batch whose running minimum rounds to zero *)
ShouldRun(start, n) ==
  IF ~ConvOn THEN n
  ELSE LET hits == {k \in 1..n : start + k - 1 < bi /\ RoundsToZero(MinUpTo(start + k - 1))}
       IN  IF hits = {} THEN n ELSE Min(hits)
StopExactly == pc = "idle" /\ outcome = "returned" /\ call # None => bi - call[1].start = ShouldRun(call[1].start, call[1].n)
TriggerBatchRecorded ==
  pc = "idle" /\ outcome = "returned" /\ call # None /\ cfg.saving /\ bi > call[1].start =>
     /\ disk # None /\ disk[1].bi = bi /\ disk[1].hist = hist /\ disk[1].ns = ns /\ disk[1].rng = rng

(* ---- C11 ---------------------------------------------------------------------------------- *)
NoThreadLeft == AtRest => ~alive
HistoryIsCompletedPrefix == pc = "raised" => /\ ns = Len(hist)
                                             /\ (Len(hist) > 0 => hist[Len(hist)].batch = bi - 1)
                                             /\ (Len(hist) = 0 => bi = 0)
(* a calibrate() issued in state "raised" is not refused by a stale session *)
NextCalibrateWorks == [][pc' # "refused"]_vars

(* ---- C18 ---------------------------------------------------------------------------------- *)
IdsNeverReassigned == [][Restore \/ \A c \in DOMAIN idt : c \in DOMAIN idt' /\ idt'[c] = idt[c]]_vars
IdsInjective == \A c, d \in DOMAIN idt : idt[c] = idt[d] => c = d
LabelNamesProducer == \A i \in Rows : hist[i].cls \in DOMAIN idt /\ idt[hist[i].cls] = hist[i].meth
(* what a reader of the checkpoint can reconstruct: the persisted table, or else the first-seen numbering of the pickled line-up *)
TableFromDisk(d) == IF PersistTable THEN d.idt ELSE Construct(d.line)
RecoverableFromDisk == disk # None =>
   \A i \in 1..Len(disk[1].hist) : /\ disk[1].hist[i].cls \in DOMAIN TableFromDisk(disk[1])
                                   /\ TableFromDisk(disk[1])[disk[1].hist[i].cls] = disk[1].hist[i].meth
=============================================================================
