\* mc: C01 whatever the seed cascade takes from the calibrator's generator (here: nothing, the code takes one draw per sampler)
CONSTANTS
  Configs <- Cfg_MC_C01_burn
  BreakOnConverged = TRUE
  CkptBeforeBreak = TRUE
  SessionFinally = TRUE
  SeedOnlyAtZero = TRUE
  PersistTable = TRUE
  SeedsInParent = TRUE
INIT Init
NEXT Next
INVARIANT TypeOK
INVARIANT Aligned
INVARIANT Truthful
INVARIANT BatchesConsecutive
INVARIANT LabelNamesProducer
INVARIANT NoThreadLeft
INVARIANT ObservableIsRef
INVARIANT NoCtorRoot
INVARIANT RoundRobin
