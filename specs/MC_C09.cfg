\* mc: C09 round robin: batch i by sampler i mod n over calls and restores
CONSTANTS
  Configs <- Cfg_MC_C09
  BreakOnConverged = TRUE
  CkptBeforeBreak = TRUE
  SessionFinally = TRUE
  SeedOnlyAtZero = TRUE
  PersistTable = TRUE
  SeedsInParent = TRUE
INIT Init
NEXT Next
INVARIANT TypeOK
INVARIANT Aligned
INVARIANT Truthful
INVARIANT BatchesConsecutive
INVARIANT LabelNamesProducer
INVARIANT NoThreadLeft
INVARIANT RoundRobin
INVARIANT BatchSizes
INVARIANT ObservableIsRef
