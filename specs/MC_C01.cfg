\* mc: C01: one observable outcome per configuration whatever njobs / verbose / saving / completion order
CONSTANTS
  Configs <- Cfg_MC_C01
  BreakOnConverged = TRUE
  CkptBeforeBreak = TRUE
  SessionFinally = TRUE
  SeedOnlyAtZero = TRUE
  PersistTable = TRUE
  SeedsInParent = TRUE
INIT Init
NEXT Next
INVARIANT TypeOK
INVARIANT Aligned
INVARIANT Truthful
INVARIANT BatchesConsecutive
INVARIANT LabelNamesProducer
INVARIANT NoThreadLeft
INVARIANT ObservableIsRef
INVARIANT NoCtorRoot
INVARIANT RoundRobin
