INIT TInit
NEXT Step
CONSTRAINT Report
