----------------------------- MODULE SwarmTrace -----------------------------
(***************************************************************************)
(* Trace validation of the real ParticleSwarmSampler against Swarm.tla.    *)
(* One trace = one sampler object driven through sample() calls on a       *)
(* growing history (its own batches, rows of other samplers in between,    *)
(* sometimes a call before its batch was appended, or only part of it).    *)
(*   setup{np, hist, start, best, g}   after the first sample()            *)
(*   step{np, hist, start, best, g, bp}  after a later sample(): hist =    *)
(*        the loss column it was given, the private bookkeeping after the  *)
(*        call (losses as small integers, 99 = +inf), bp: _best_point is   *)
(*        the first row of least loss                                      *)
(*        ctx "calibrator": the call was made by a real Calibrator, and    *)
(*        ownwin: the window rows are exactly the batch returned last time *)
(*   reset{}                            after reset()                      *)
(* The logged fields are bound to the variables of Swarm.tla and the next  *)
(* state is computed by its operators (StepResult / Fresh).                *)
(***************************************************************************)
EXTENDS Swarm, Json, IOUtils, SequencesExt

Doc    == JsonDeserialize(IOEnv.TRACE_FILE)
Traces == Doc.traces
VARIABLES tid, l
T  == Traces[tid]
Ev == T[l]
More == l <= Len(T)

TInit == /\ tid \in 1..Len(Traces) /\ l = 1
         /\ hist = <<>> /\ up = FALSE /\ best = <<>> /\ g = 1 /\ start = 0 /\ phase = "idle" /\ own = <<>>

Grows(e) == IsPrefix(hist, e.hist)                       \* the history the sampler is shown only ever grows
SetUpOK(e) == /\ ~up /\ Grows(e)
              /\ e.best = Fresh(e.np) /\ e.g = 1 /\ e.start = Len(e.hist)
StepOK(e) == /\ up /\ Grows(e)
             /\ LET r == StepResult(e.hist, best, g, start, e.np) IN e.best = r[1] /\ e.g = r[2]
             /\ e.start = Len(e.hist)
             /\ e.bp
             /\ (e.ctx = "calibrator" => e.ownwin)        \* inside a real calibration the window rows are the batch the swarm returned
EvOK(e) == CASE e.e = "setup" -> SetUpOK(e)
             [] e.e = "step" -> StepOK(e)
             [] e.e = "reset" -> up
             [] OTHER -> FALSE
TStep == /\ More /\ EvOK(Ev) /\ l' = l + 1 /\ UNCHANGED <<tid, own, phase>>
         /\ CASE Ev.e = "reset" -> up' = FALSE /\ UNCHANGED <<hist, best, g, start>>
              [] OTHER -> up' = TRUE /\ hist' = Ev.hist /\ best' = Ev.best /\ g' = Ev.g /\ start' = Ev.start
Why == IF ~More THEN "end"
       ELSE CASE Ev.e = "setup" /\ up -> "set-up-while-set-up"
              [] Ev.e = "setup" -> "set-up-bookkeeping"
              [] Ev.e = "step" /\ ~up -> "step-before-set-up"
              [] Ev.e = "step" /\ ~Grows(Ev) -> "history-not-a-prefix"
              [] Ev.e = "step" /\ Ev.start # Len(Ev.hist) -> "window-start"
              [] Ev.e = "step" /\ ~Ev.bp -> "best-point"
              [] Ev.e = "step" /\ Ev.ctx = "calibrator" /\ ~Ev.ownwin -> "window-not-own-batch"
              [] Ev.e = "step" -> "best-loss-table-or-global-best"
              [] OTHER -> "unexplained"
Report == /\ (l = Len(T) + 1 => PrintT(<<"OK", tid>>))
          /\ (More /\ ~EvOK(Ev) => PrintT(<<"STUCK", tid, l, Why>>))
=============================================================================
