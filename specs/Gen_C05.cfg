\* gen: every composition of <= 4 batches, each cut live or checkpoint/restore
CONSTANTS
  Configs <- Cfg_Gen_C05
  BreakOnConverged = TRUE
  CkptBeforeBreak = TRUE
  SessionFinally = TRUE
  SeedOnlyAtZero = TRUE
  PersistTable = TRUE
  SeedsInParent = TRUE
INIT GInit
NEXT GNext
CONSTRAINT Bound
INVARIANT Emit
