\* mut: pinned design: the next calibrate() is refused
CONSTANTS
  Configs <- Cfg_MC_C11_mut2
  BreakOnConverged = TRUE
  CkptBeforeBreak = TRUE
  SessionFinally = FALSE
  SeedOnlyAtZero = TRUE
  PersistTable = TRUE
  SeedsInParent = TRUE
INIT Init
NEXT Next
INVARIANT TypeOK
PROPERTY NextCalibrateWorks
