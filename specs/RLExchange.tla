----------------------------- MODULE RLExchange -----------------------------
(***************************************************************************)
(* C10 - the exchange between the calibration loop and the agent's thread  *)
(* of the RL scheduler (black_it/schedulers/rl/rl_scheduler.py,            *)
(* envs/base.py), one label per synchronisation point of the code:         *)
(*                                                                         *)
(*  calibration thread                     agent thread (_train)           *)
(*   Start1  _stopped := False             Chk   read _stopped             *)
(*   Start2  Thread(...).start()           Put   policy(); actQ.put(a)     *)
(*   Get     a := actQ.get()   (blocking)  Rcv   r := outQ.get() (blocking)*)
(*   Upd     outQ.put(outcome) / bootstrap       learn(...) or leave       *)
(*   End1    _stopped := True              Exit  thread ends               *)
(*   End2    outQ.put(None)                                                *)
(*   Join    thread.join()                                                 *)
(*   Drain   empty actQ                                                    *)
(*                                                                         *)
(* Three switches select the pinned protocol or the repaired one:          *)
(*   ExitOnFlag      the agent loop is `while not _stopped` (pinned) or    *)
(*                   runs until it receives the end marker (repaired)      *)
(*   LearnOnTerminal the agent calls learn() on the end marker (pinned)    *)
(*   DrainOnEnd      end_session empties the action queue (repaired)       *)
(* and a fourth one names an assumption the exchange silently relies on:   *)
(*   RewardTotal     computing the reward never raises                     *)
(*                                                                         *)
(* Messages carry ghost identities (choice ids, batch numbers) so that the *)
(* properties can say *which* choice was executed by *which* batch and     *)
(* which outcome a learn() was computed from.                              *)
(***************************************************************************)
EXTENDS Integers, Sequences, FiniteSets, TLC

CONSTANTS NSessions,       \* number of consecutive sessions (calibrate() calls)
          BatchChoices,    \* admissible numbers of batches per session
          Script,          \* Script[k] = action the policy returns after k-1 real learns (deterministic agent)
          ExitOnFlag, LearnOnTerminal, DrainOnEnd,
          RewardTotal      \* the environment's reward is defined for every outcome (FALSE: for some outcome computing it raises
                           \* in the agent thread - MABCalibrationEnv divides by the reference loss, which may be exactly 0)

(* --algorithm RLExchange {
variables actQ = <<>>,          \* agent -> scheduler : <<choice id, action>>
          outQ = <<>>,          \* scheduler -> agent : <<"out", batch>> | <<"end">>
          stopped = TRUE,       \* RLScheduler._stopped
          alive = FALSE,        \* the agent thread is running
          bestSet = FALSE,      \* RLScheduler._best_loss is not None (the bootstrap batch has been scored)
          sess = 0,             \* sessions started
          nbatch = 0,           \* batches completed over the whole life
          nchoice = 0,          \* policy() calls so far
          nlearn = 0,           \* learn() calls computed from a real outcome
          chosen = <<>>,        \* history: [cid, act]
          executed = <<>>,      \* history: [batch, cid, act]   (agent-driven batches only)
          learned = <<>>,       \* history: [cid, act, batch]   (batch = -1: learned from the end marker)
          calDone = FALSE;

fair process (cal = "cal")
  variables todo = 0, got = <<>>;
{
 Sess:   while (sess < NSessions) {
           sess := sess + 1;
           with (n \in BatchChoices) { todo := n };
 Start1:   stopped := FALSE;
 Start2:   alive := TRUE;
 Loop:     while (todo > 0) {
             if (bestSet) {
 Get:          await actQ # <<>>;
               got := Head(actQ);
               actQ := Tail(actQ);
               executed := Append(executed, [batch |-> nbatch, cid |-> got[1], act |-> got[2]]);
             };
 Upd:        if (bestSet) { outQ := Append(outQ, <<"out", nbatch>>) } else { bestSet := TRUE };
             nbatch := nbatch + 1;
             todo := todo - 1;
           };
 End1:     stopped := TRUE;
 End2:     outQ := Append(outQ, <<"end">>);
 Join:     await ~alive;
 Drain:    if (DrainOnEnd) { actQ := <<>> };
         };
         calDone := TRUE;
}

fair process (agent = "agent")
  variables cid = 0, act = 0, res = <<>>;
{
 Wait:   while (TRUE) {
           await alive \/ calDone;
           if (~alive) { goto Fin };
 Chk:      if (ExitOnFlag /\ stopped) { goto Exit };
 Put:      nchoice := nchoice + 1;
           cid := nchoice;
           act := Script[(nlearn % Len(Script)) + 1];
           chosen := Append(chosen, [cid |-> cid, act |-> act]);
           actQ := Append(actQ, <<cid, act>>);
 Rcv:      await outQ # <<>>;
           res := Head(outQ);
           outQ := Tail(outQ);
           if (res[1] = "end") {
             if (LearnOnTerminal) { learned := Append(learned, [cid |-> cid, act |-> act, batch |-> -1]) };
             if (ExitOnFlag) { goto Chk } else { goto Exit };
           } else {
             with (ok \in IF RewardTotal THEN {TRUE} ELSE {TRUE, FALSE}) {
               if (ok) {
                 learned := Append(learned, [cid |-> cid, act |-> act, batch |-> res[2]]);
                 nlearn := nlearn + 1;
                 goto Chk;
               } else { goto Exit };      \* env.step raised: the thread dies, nobody tells the calibration thread
             };
           };
 Exit:     alive := FALSE;
         };
 Fin:    skip;
}
} *)
\* BEGIN TRANSLATION
VARIABLES pc, actQ, outQ, stopped, alive, bestSet, sess, nbatch, nchoice, 
          nlearn, chosen, executed, learned, calDone, todo, got, cid, act, 
          res

vars == << pc, actQ, outQ, stopped, alive, bestSet, sess, nbatch, nchoice, 
           nlearn, chosen, executed, learned, calDone, todo, got, cid, act, 
           res >>

ProcSet == {"cal"} \cup {"agent"}

Init == (* Global variables *)
        /\ actQ = <<>>
        /\ outQ = <<>>
        /\ stopped = TRUE
        /\ alive = FALSE
        /\ bestSet = FALSE
        /\ sess = 0
        /\ nbatch = 0
        /\ nchoice = 0
        /\ nlearn = 0
        /\ chosen = <<>>
        /\ executed = <<>>
        /\ learned = <<>>
        /\ calDone = FALSE
        (* Process cal *)
        /\ todo = 0
        /\ got = <<>>
        (* Process agent *)
        /\ cid = 0
        /\ act = 0
        /\ res = <<>>
        /\ pc = [self \in ProcSet |-> CASE self = "cal" -> "Sess"
                                        [] self = "agent" -> "Wait"]

Sess == /\ pc["cal"] = "Sess"
        /\ IF sess < NSessions
              THEN /\ sess' = sess + 1
                   /\ \E n \in BatchChoices:
                        todo' = n
                   /\ pc' = [pc EXCEPT !["cal"] = "Start1"]
                   /\ UNCHANGED calDone
              ELSE /\ calDone' = TRUE
                   /\ pc' = [pc EXCEPT !["cal"] = "Done"]
                   /\ UNCHANGED << sess, todo >>
        /\ UNCHANGED << actQ, outQ, stopped, alive, bestSet, nbatch, nchoice, 
                        nlearn, chosen, executed, learned, got, cid, act, res >>

Start1 == /\ pc["cal"] = "Start1"
          /\ stopped' = FALSE
          /\ pc' = [pc EXCEPT !["cal"] = "Start2"]
          /\ UNCHANGED << actQ, outQ, alive, bestSet, sess, nbatch, nchoice, 
                          nlearn, chosen, executed, learned, calDone, todo, 
                          got, cid, act, res >>

Start2 == /\ pc["cal"] = "Start2"
          /\ alive' = TRUE
          /\ pc' = [pc EXCEPT !["cal"] = "Loop"]
          /\ UNCHANGED << actQ, outQ, stopped, bestSet, sess, nbatch, nchoice, 
                          nlearn, chosen, executed, learned, calDone, todo, 
                          got, cid, act, res >>

Loop == /\ pc["cal"] = "Loop"
        /\ IF todo > 0
              THEN /\ IF bestSet
                         THEN /\ pc' = [pc EXCEPT !["cal"] = "Get"]
                         ELSE /\ pc' = [pc EXCEPT !["cal"] = "Upd"]
              ELSE /\ pc' = [pc EXCEPT !["cal"] = "End1"]
        /\ UNCHANGED << actQ, outQ, stopped, alive, bestSet, sess, nbatch, 
                        nchoice, nlearn, chosen, executed, learned, calDone, 
                        todo, got, cid, act, res >>

Upd == /\ pc["cal"] = "Upd"
       /\ IF bestSet
             THEN /\ outQ' = Append(outQ, <<"out", nbatch>>)
                  /\ UNCHANGED bestSet
             ELSE /\ bestSet' = TRUE
                  /\ outQ' = outQ
       /\ nbatch' = nbatch + 1
       /\ todo' = todo - 1
       /\ pc' = [pc EXCEPT !["cal"] = "Loop"]
       /\ UNCHANGED << actQ, stopped, alive, sess, nchoice, nlearn, chosen, 
                       executed, learned, calDone, got, cid, act, res >>

Get == /\ pc["cal"] = "Get"
       /\ actQ # <<>>
       /\ got' = Head(actQ)
       /\ actQ' = Tail(actQ)
       /\ executed' = Append(executed, [batch |-> nbatch, cid |-> got'[1], act |-> got'[2]])
       /\ pc' = [pc EXCEPT !["cal"] = "Upd"]
       /\ UNCHANGED << outQ, stopped, alive, bestSet, sess, nbatch, nchoice, 
                       nlearn, chosen, learned, calDone, todo, cid, act, res >>

End1 == /\ pc["cal"] = "End1"
        /\ stopped' = TRUE
        /\ pc' = [pc EXCEPT !["cal"] = "End2"]
        /\ UNCHANGED << actQ, outQ, alive, bestSet, sess, nbatch, nchoice, 
                        nlearn, chosen, executed, learned, calDone, todo, got, 
                        cid, act, res >>

End2 == /\ pc["cal"] = "End2"
        /\ outQ' = Append(outQ, <<"end">>)
        /\ pc' = [pc EXCEPT !["cal"] = "Join"]
        /\ UNCHANGED << actQ, stopped, alive, bestSet, sess, nbatch, nchoice, 
                        nlearn, chosen, executed, learned, calDone, todo, got, 
                        cid, act, res >>

Join == /\ pc["cal"] = "Join"
        /\ ~alive
        /\ pc' = [pc EXCEPT !["cal"] = "Drain"]
        /\ UNCHANGED << actQ, outQ, stopped, alive, bestSet, sess, nbatch, 
                        nchoice, nlearn, chosen, executed, learned, calDone, 
                        todo, got, cid, act, res >>

Drain == /\ pc["cal"] = "Drain"
         /\ IF DrainOnEnd
               THEN /\ actQ' = <<>>
               ELSE /\ TRUE
                    /\ actQ' = actQ
         /\ pc' = [pc EXCEPT !["cal"] = "Sess"]
         /\ UNCHANGED << outQ, stopped, alive, bestSet, sess, nbatch, nchoice, 
                         nlearn, chosen, executed, learned, calDone, todo, got, 
                         cid, act, res >>

cal == Sess \/ Start1 \/ Start2 \/ Loop \/ Upd \/ Get \/ End1 \/ End2
          \/ Join \/ Drain

Wait == /\ pc["agent"] = "Wait"
        /\ alive \/ calDone
        /\ IF ~alive
              THEN /\ pc' = [pc EXCEPT !["agent"] = "Fin"]
              ELSE /\ pc' = [pc EXCEPT !["agent"] = "Chk"]
        /\ UNCHANGED << actQ, outQ, stopped, alive, bestSet, sess, nbatch, 
                        nchoice, nlearn, chosen, executed, learned, calDone, 
                        todo, got, cid, act, res >>

Chk == /\ pc["agent"] = "Chk"
       /\ IF ExitOnFlag /\ stopped
             THEN /\ pc' = [pc EXCEPT !["agent"] = "Exit"]
             ELSE /\ pc' = [pc EXCEPT !["agent"] = "Put"]
       /\ UNCHANGED << actQ, outQ, stopped, alive, bestSet, sess, nbatch, 
                       nchoice, nlearn, chosen, executed, learned, calDone, 
                       todo, got, cid, act, res >>

Put == /\ pc["agent"] = "Put"
       /\ nchoice' = nchoice + 1
       /\ cid' = nchoice'
       /\ act' = Script[(nlearn % Len(Script)) + 1]
       /\ chosen' = Append(chosen, [cid |-> cid', act |-> act'])
       /\ actQ' = Append(actQ, <<cid', act'>>)
       /\ pc' = [pc EXCEPT !["agent"] = "Rcv"]
       /\ UNCHANGED << outQ, stopped, alive, bestSet, sess, nbatch, nlearn, 
                       executed, learned, calDone, todo, got, res >>

Rcv == /\ pc["agent"] = "Rcv"
       /\ outQ # <<>>
       /\ res' = Head(outQ)
       /\ outQ' = Tail(outQ)
       /\ IF res'[1] = "end"
             THEN /\ IF LearnOnTerminal
                        THEN /\ learned' = Append(learned, [cid |-> cid, act |-> act, batch |-> -1])
                        ELSE /\ TRUE
                             /\ UNCHANGED learned
                  /\ IF ExitOnFlag
                        THEN /\ pc' = [pc EXCEPT !["agent"] = "Chk"]
                        ELSE /\ pc' = [pc EXCEPT !["agent"] = "Exit"]
                  /\ UNCHANGED nlearn
             ELSE /\ \E ok \in IF RewardTotal THEN {TRUE} ELSE {TRUE, FALSE}:
                       IF ok
                          THEN /\ learned' = Append(learned, [cid |-> cid, act |-> act, batch |-> res'[2]])
                               /\ nlearn' = nlearn + 1
                               /\ pc' = [pc EXCEPT !["agent"] = "Chk"]
                          ELSE /\ pc' = [pc EXCEPT !["agent"] = "Exit"]
                               /\ UNCHANGED << nlearn, learned >>
       /\ UNCHANGED << actQ, stopped, alive, bestSet, sess, nbatch, nchoice, 
                       chosen, executed, calDone, todo, got, cid, act >>

Exit == /\ pc["agent"] = "Exit"
        /\ alive' = FALSE
        /\ pc' = [pc EXCEPT !["agent"] = "Wait"]
        /\ UNCHANGED << actQ, outQ, stopped, bestSet, sess, nbatch, nchoice, 
                        nlearn, chosen, executed, learned, calDone, todo, got, 
                        cid, act, res >>

Fin == /\ pc["agent"] = "Fin"
       /\ TRUE
       /\ pc' = [pc EXCEPT !["agent"] = "Done"]
       /\ UNCHANGED << actQ, outQ, stopped, alive, bestSet, sess, nbatch, 
                       nchoice, nlearn, chosen, executed, learned, calDone, 
                       todo, got, cid, act, res >>

agent == Wait \/ Chk \/ Put \/ Rcv \/ Exit \/ Fin

(* Allow infinite stuttering to prevent deadlock on termination. *)
Terminating == /\ \A self \in ProcSet: pc[self] = "Done"
               /\ UNCHANGED vars

Next == cal \/ agent
           \/ Terminating

Spec == /\ Init /\ [][Next]_vars
        /\ WF_vars(cal)
        /\ WF_vars(agent)

Termination == <>(\A self \in ProcSet: pc[self] = "Done")

\* END TRANSLATION

(* ---- properties --------------------------------------------------------------------------- *)
Between == pc["cal"] \in {"Sess", "Done"}        \* the calibration thread is between sessions

(* never learn from an action that was not executed *)
NoPhantomLearn == \A j \in 1..Len(learned) : \E k \in 1..Len(executed) : learned[j].batch = executed[k].batch

(* the reward is computed from the outcome of the very batch that executed the choice, and credited to its action *)
Attribution == \A j \in 1..Len(learned) : \A k \in 1..Len(executed) :
                  learned[j].batch = executed[k].batch => learned[j].cid = executed[k].cid /\ learned[j].act = executed[k].act

AtMostOnce == \A i, j \in 1..Len(learned) : learned[i].batch = learned[j].batch /\ learned[i].batch # -1 => i = j

(* once a session is over, every agent-driven batch has been learned from exactly once *)
LearnExactlyOnce == Between => \A k \in 1..Len(executed) :
                       Cardinality({j \in 1..Len(learned) : learned[j].batch = executed[k].batch}) = 1

NoLeftover == Between => actQ = <<>> /\ outQ = <<>> /\ ~alive

(* the k-th agent-driven batch executes the action the agent chose after exactly k-1 real learns: no dependence on timing *)
TimingIndependent == \A k \in 1..Len(executed) : executed[k].act = Script[((k - 1) % Len(Script)) + 1]

Invs == NoPhantomLearn /\ Attribution /\ AtMostOnce /\ LearnExactlyOnce /\ NoLeftover /\ TimingIndependent
=============================================================================
