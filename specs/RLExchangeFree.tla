--------------------------- MODULE RLExchangeFree ---------------------------
(***************************************************************************)
(* C10, free-running executions: the real RLScheduler with real            *)
(* queue.Queue objects and a real threading.Thread, no controller.  Each   *)
(* thread logs its own events with its own sequence number (T.cal,         *)
(* T.agent); there is no global order and no clock.  TLC infers the        *)
(* interleaving: a step consumes the next event of either thread, provided *)
(* the action of RLExchangeTrace.tla that explains it is enabled (FIFO     *)
(* queues, a get needs a matching put before it, ...).  The execution is   *)
(* accepted when some merge of the two sequences consumes all events and   *)
(* satisfies every invariant in every state.                               *)
(***************************************************************************)
EXTENDS RLExchangeTrace

VARIABLE la        \* cursor into the agent thread's events (l is the calibration thread's cursor)

FInit == TInit /\ la = 1
CalStep == /\ l <= Len(T.cal) /\ Apply(T.cal[l])
           /\ l' = l + 1 /\ la' = la /\ Rest
AgentStep == /\ la <= Len(T.agent) /\ Apply(T.agent[la])
             /\ la' = la + 1 /\ l' = l /\ Rest
FNext == CalStep \/ AgentStep

FTimingIndependent ==
  /\ T.script # <<-1>> => \A k \in 1..Len(executed) : executed[k].act = T.script[((k - 1) % Len(T.script)) + 1]
  /\ T.ref # <<-1>> => \A k \in 1..Len(executed) : k <= Len(T.ref) /\ executed[k].act = T.ref[k]
FInvOK == NoPhantomLearn /\ Attribution /\ AtMostOnce /\ LearnExactlyOnce /\ NoLeftover /\ FTimingIndependent /\ rewardOK

ASSUME \A i \in 1..Len(Traces) : TLCSet(i, 0) /\ TLCSet(100000 + i, <<>>)
FReport ==
  /\ FInvOK                                             \* merges that break an invariant are not continued
  /\ IF l + la >= TLCGet(tid) THEN TLCSet(tid, l + la) /\ TLCSet(100000 + tid, <<l, la>>) ELSE TRUE
FPost == \A i \in 1..Len(Traces) :
           IF TLCGet(i) = Len(Traces[i].cal) + Len(Traces[i].agent) + 2 THEN PrintT(<<"OK", i>>)
           ELSE PrintT(<<"STUCK", i, TLCGet(i), TLCGet(100000 + i)>>)
=============================================================================
