SPECIFICATION Spec
CONSTRAINT Report
CHECK_DEADLOCK FALSE
