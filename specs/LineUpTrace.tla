---------------------------- MODULE LineUpTrace ----------------------------
(* Round robin over a line-up given as a list of sampler OBJECTS, in which the same object may occur in several slots:           *)
(* events {objs, picks}: objs[k] = identity of the object in slot k, picks[i] = identity of the object get_next_sampler returned  *)
(* for batch i-1 (update() called after each).  Batch i is served by slot i mod n - the line-up is the list as given, slot by     *)
(* slot, whatever objects it repeats.                                                                                            *)
EXTENDS Naturals, Sequences, TLC, Json, IOUtils

Doc    == JsonDeserialize(IOEnv.TRACE_FILE)
Traces == Doc.traces
VARIABLES tid, l
T == Traces[tid]
Ev == T[l]
PickOK(e) == /\ Len(e.objs) > 0
             /\ e.kept = Len(e.objs)                                       \* the scheduler holds as many slots as it was given
             /\ \A i \in 1..Len(e.picks) : e.picks[i] = e.objs[((i - 1) % Len(e.objs)) + 1]
Init == tid \in 1..Len(Traces) /\ l = 1
Step == l <= Len(T) /\ PickOK(Ev) /\ l' = l + 1 /\ UNCHANGED tid
Spec == Init /\ [][Step]_<<tid, l>>
Why == IF l > Len(T) THEN "end" ELSE "a batch was not served by the slot its index designates (or the line-up was shortened)"
Report == /\ (l = Len(T) + 1 => PrintT(<<"OK", tid>>))
          /\ (l <= Len(T) /\ ~ENABLED Step => PrintT(<<"STUCK", tid, l, Why>>))
=============================================================================
