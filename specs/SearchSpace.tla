----------------------------- MODULE SearchSpace -----------------------------
(***************************************************************************)
(* C15 - black_it/search_space.py: ordered validation of a search-space    *)
(* specification and construction of the per-parameter precision grid.     *)
(*                                                                         *)
(* An input is  [nb, lo, up, pr]: nb = number of sub-arrays of             *)
(* parameters_bounds (2 when well-formed; lo/up are its first two),        *)
(* pr = parameters_precision.  Values are integers (units of a scale the   *)
(* harness chooses); negative precisions are outside the statement.        *)
(*                                                                         *)
(*  Validate(inp)   the documented decision table (declarative):           *)
(*                  shape checks, then the first offending parameter in    *)
(*                  index order, and for it equal -> inverted -> zero      *)
(*                  precision -> precision larger than the range           *)
(*  the machine     _check_bounds step by step (Init/Shape1/../Loop)       *)
(*  Grid(l,u,p)     lower, lower+precision, ... up to the last step not    *)
(*                  beyond upper;  Size = product of the grid lengths      *)
(***************************************************************************)
EXTENDS Integers, Sequences, FiniteSets, TLC

CONSTANTS Vals,      \* value lattice for bounds and precisions (model checking)
          MaxD,      \* largest number of parameters
          Order      \* "documented" | "inverted-first" (harmless reordering: the two conditions exclude each other) |
                     \* "precision-first" (design mutant: the precision checks before the bound checks give another error class)

Min(S) == CHOOSE x \in S : \A y \in S : x <= y

(* ---- declarative table ---------------------------------------------------------------------------- *)
BadParam(inp, i) == \/ inp.lo[i] = inp.up[i] \/ inp.lo[i] > inp.up[i] \/ inp.pr[i] = 0 \/ inp.pr[i] > inp.up[i] - inp.lo[i]
Validate(inp) ==
  IF inp.nb # 2 THEN [err |-> "BoundsNotOfSizeTwoError", a |-> inp.nb, b |-> 0, c |-> 0, d |-> 0]
  ELSE IF Len(inp.lo) # Len(inp.up) THEN [err |-> "BoundsOfDifferentLengthError", a |-> Len(inp.lo), b |-> Len(inp.up), c |-> 0, d |-> 0]
  ELSE IF Len(inp.pr) # Len(inp.lo) THEN [err |-> "BadPrecisionLengthError", a |-> Len(inp.pr), b |-> Len(inp.lo), c |-> 0, d |-> 0]
  ELSE LET bad == {i \in 1..Len(inp.lo) : BadParam(inp, i)} IN
       IF bad = {} THEN [err |-> "none", a |-> 0, b |-> 0, c |-> 0, d |-> 0]
       ELSE LET i == Min(bad) IN          \* payload: 0-based index, then the offending values
            IF inp.lo[i] = inp.up[i] THEN [err |-> "SameLowerAndUpperBoundError", a |-> i - 1, b |-> inp.lo[i], c |-> 0, d |-> 0]
            ELSE IF inp.lo[i] > inp.up[i] THEN [err |-> "LowerBoundGreaterThanUpperBoundError", a |-> i - 1, b |-> inp.lo[i], c |-> inp.up[i], d |-> 0]
            ELSE IF inp.pr[i] = 0 THEN [err |-> "PrecisionZeroError", a |-> i - 1, b |-> 0, c |-> 0, d |-> 0]
            ELSE [err |-> "PrecisionGreaterThanBoundsRangeError", a |-> i - 1, b |-> inp.lo[i], c |-> inp.up[i], d |-> inp.pr[i]]

GridLen(l, u, p) == ((u - l) \div p) + 1
Grid(l, u, p) == [k \in 1..GridLen(l, u, p) |-> l + (k - 1) * p]
RECURSIVE Prod(_, _)
Prod(f, n) == IF n = 0 THEN 1 ELSE f[n] * Prod(f, n - 1)
Size(inp) == Prod([i \in 1..Len(inp.lo) |-> GridLen(inp.lo[i], inp.up[i], inp.pr[i])], Len(inp.lo))

(* ---- _check_bounds as a machine ------------------------------------------------------------------- *)
VARIABLES inp, pc, i, out
vars == <<inp, pc, i, out>>
None == [err |-> "pending", a |-> 0, b |-> 0, c |-> 0, d |-> 0]
Seqs(n) == UNION {[1..k -> Vals] : k \in 0..n}
PosVals == {v \in Vals : v >= 0}
Init == /\ inp \in [nb : {1, 2, 3}, lo : Seqs(MaxD), up : Seqs(MaxD), pr : UNION {[1..k -> PosVals] : k \in 0..MaxD}]
        /\ pc = "shape1" /\ i = 1 /\ out = None
Raise(e) == out' = e /\ pc' = "done"
Shape1 == /\ pc = "shape1"
          /\ IF inp.nb # 2 THEN Raise([err |-> "BoundsNotOfSizeTwoError", a |-> inp.nb, b |-> 0, c |-> 0, d |-> 0])
             ELSE pc' = "shape2" /\ UNCHANGED out
          /\ UNCHANGED <<inp, i>>
Shape2 == /\ pc = "shape2"
          /\ IF Len(inp.lo) # Len(inp.up)
               THEN Raise([err |-> "BoundsOfDifferentLengthError", a |-> Len(inp.lo), b |-> Len(inp.up), c |-> 0, d |-> 0])
               ELSE pc' = "shape3" /\ UNCHANGED out
          /\ UNCHANGED <<inp, i>>
Shape3 == /\ pc = "shape3"
          /\ IF Len(inp.pr) # Len(inp.lo)
               THEN Raise([err |-> "BadPrecisionLengthError", a |-> Len(inp.pr), b |-> Len(inp.lo), c |-> 0, d |-> 0])
               ELSE pc' = "loop" /\ UNCHANGED out
          /\ UNCHANGED <<inp, i>>
Same  == inp.lo[i] = inp.up[i]
Inv   == inp.lo[i] > inp.up[i]
Zero  == inp.pr[i] = 0
Wide  == inp.pr[i] > inp.up[i] - inp.lo[i]
ESame == [err |-> "SameLowerAndUpperBoundError", a |-> i - 1, b |-> inp.lo[i], c |-> 0, d |-> 0]
EInv  == [err |-> "LowerBoundGreaterThanUpperBoundError", a |-> i - 1, b |-> inp.lo[i], c |-> inp.up[i], d |-> 0]
EZero == [err |-> "PrecisionZeroError", a |-> i - 1, b |-> 0, c |-> 0, d |-> 0]
EWide == [err |-> "PrecisionGreaterThanBoundsRangeError", a |-> i - 1, b |-> inp.lo[i], c |-> inp.up[i], d |-> inp.pr[i]]
Loop == /\ pc = "loop"
        /\ IF i > Len(inp.lo) THEN Raise([err |-> "none", a |-> 0, b |-> 0, c |-> 0, d |-> 0]) /\ UNCHANGED i
           ELSE CASE Order = "documented" ->
                       IF Same THEN Raise(ESame) /\ UNCHANGED i ELSE IF Inv THEN Raise(EInv) /\ UNCHANGED i
                       ELSE IF Zero THEN Raise(EZero) /\ UNCHANGED i ELSE IF Wide THEN Raise(EWide) /\ UNCHANGED i
                       ELSE i' = i + 1 /\ UNCHANGED <<pc, out>>
                  [] Order = "inverted-first" ->
                       IF Inv THEN Raise(EInv) /\ UNCHANGED i ELSE IF Same THEN Raise(ESame) /\ UNCHANGED i
                       ELSE IF Zero THEN Raise(EZero) /\ UNCHANGED i ELSE IF Wide THEN Raise(EWide) /\ UNCHANGED i
                       ELSE i' = i + 1 /\ UNCHANGED <<pc, out>>
                  [] Order = "precision-first" ->
                       IF Zero THEN Raise(EZero) /\ UNCHANGED i ELSE IF Wide THEN Raise(EWide) /\ UNCHANGED i
                       ELSE IF Same THEN Raise(ESame) /\ UNCHANGED i ELSE IF Inv THEN Raise(EInv) /\ UNCHANGED i
                       ELSE i' = i + 1 /\ UNCHANGED <<pc, out>>
        /\ UNCHANGED inp
Next == Shape1 \/ Shape2 \/ Shape3 \/ Loop

(* ---- properties ----------------------------------------------------------------------------------- *)
MachineMatchesTable == pc = "done" => out = Validate(inp)
(* on well-formed input every grid starts at the lower bound, is evenly spaced, ends at the last step not beyond the upper bound *)
GridLaw == pc = "done" /\ out.err = "none" =>
             \A j \in 1..Len(inp.lo) :
               LET g == Grid(inp.lo[j], inp.up[j], inp.pr[j]) IN
                 /\ g[1] = inp.lo[j] /\ g[Len(g)] <= inp.up[j] /\ g[Len(g)] + inp.pr[j] > inp.up[j]
                 /\ ((inp.up[j] - inp.lo[j]) % inp.pr[j] = 0 => g[Len(g)] = inp.up[j])
                 /\ \A k \in 1..Len(g) - 1 : g[k + 1] - g[k] = inp.pr[j]
=============================================================================
