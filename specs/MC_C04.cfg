CONSTANTS
  Runs = {"A", "B", "A2"}
  Shared = {"A2"}
  MaxRows = 2
  MaxSaves = 3
  AppendInPlace = "prefix"
  Crashes = FALSE
  CrossCheck = FALSE
  SqlDeleteInTxn = TRUE
INIT Init
NEXT Next
INVARIANT RestoreEqualsSaved
INVARIANT SqlRestoreEqualsSaved
