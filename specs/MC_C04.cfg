CONSTANTS
  Runs = {"A", "B"}
  MaxRows = 2
  MaxSaves = 3
  AppendInPlace = FALSE
  Crashes = FALSE
  CrossCheck = FALSE
  SqlDeleteInTxn = TRUE
INIT Init
NEXT Next
INVARIANT RestoreEqualsSaved
INVARIANT SqlRestoreEqualsSaved
