---------------------------- MODULE LossInterface ----------------------------
(***************************************************************************)
(* C08 - BaseLoss.compute_loss (black_it/loss_functions/base.py) as a fold *)
(* over coordinates with an abstract single-coordinate kernel:             *)
(*                                                                         *)
(*   loss = SUM_i  w[i] * K[ <<f[i][sim[e][i]] : e in members>>, real[i] ] *)
(*                                                                         *)
(* Data are symbols 0..V-1 (one symbol stands for a whole 1-d series), a   *)
(* filter is any map Symbols -> Symbols applied to the SIMULATED symbol of *)
(* its own coordinate, member by member; K is an arbitrary table (a user-  *)
(* defined single-coordinate loss).  The machine evaluates the loss step   *)
(* by step the way the code does (check lengths, filter, loop) and a       *)
(* sequence of evaluations on one loss object never changes its state.     *)
(***************************************************************************)
EXTENDS Integers, Sequences, FiniteSets, TLC

CONSTANTS D,          \* coordinates
          E,          \* ensemble members
          V,          \* number of data symbols
          Weights,    \* admissible weights
          KTables,    \* set of kernels: functions [ (Seq of E symbols) \X symbol -> Nat ]
          FilterOn    \* "sim" (the code) | "both" (design mutant: the filter is also applied to the real series)

Sym == 0..V - 1
Filters == [Sym -> Sym]
RECURSIVE SumTo(_, _)
SumTo(f, n) == IF n = 0 THEN 0 ELSE f[n] + SumTo(f, n - 1)

(* the value, declaratively *)
Term(w, f, K, sim, real, i) == w[i] * K[<<[e \in 1..E |-> f[i][sim[e][i]]], real[i]>>]
ComputeLoss(w, f, K, sim, real) == SumTo([i \in 1..D |-> Term(w, f, K, sim, real, i)], D)

(* ---- compute_loss as a machine ----------------------------------------------------------------------- *)
VARIABLES w, f, K, sim, real,       \* inputs / configuration of the loss object
          i, acc, pc, nevals, first
vars == <<w, f, K, sim, real, i, acc, pc, nevals, first>>

Init == /\ w \in [1..D -> Weights] /\ f \in [1..D -> Filters] /\ K \in KTables
        /\ sim \in [1..E -> [1..D -> Sym]] /\ real \in [1..D -> Sym]
        /\ i = 1 /\ acc = 0 /\ pc = "loop" /\ nevals = 0 /\ first = -1

Loop == /\ pc = "loop"
        /\ IF i > D THEN /\ pc' = "done" /\ UNCHANGED <<i, acc>>
           ELSE /\ acc' = acc + w[i] * K[<<[e \in 1..E |-> f[i][sim[e][i]]],
                                          IF FilterOn = "both" THEN f[i][real[i]] ELSE real[i]>>]
                /\ i' = i + 1 /\ pc' = "loop"
        /\ UNCHANGED <<w, f, K, sim, real, nevals, first>>
(* a second evaluation on the same object with the same arguments *)
Again == /\ pc = "done" /\ nevals = 0
         /\ first' = acc /\ nevals' = 1 /\ i' = 1 /\ acc' = 0 /\ pc' = "loop"
         /\ UNCHANGED <<w, f, K, sim, real>>
Next == Loop \/ Again

(* ---- properties ---------------------------------------------------------------------------------------- *)
MachineIsFold == pc = "done" => acc = ComputeLoss(w, f, K, sim, real)
Repeatable == pc = "done" /\ nevals = 1 => acc = first
Unit(j) == [k \in 1..D |-> IF k = j THEN 1 ELSE 0]
WeightLinear == pc = "done" => acc = SumTo([j \in 1..D |-> w[j] * ComputeLoss(Unit(j), f, K, sim, real)], D)
ZeroWeightDrops == pc = "done" => \A j \in 1..D : w[j] = 0 =>
                      acc = SumTo([k \in 1..D |-> IF k = j THEN 0 ELSE Term(w, f, K, sim, real, k)], D)
(* swapping two coordinates together with their weights, filters and data changes nothing *)
Swap(x, a, b) == [k \in DOMAIN x |-> IF k = a THEN x[b] ELSE IF k = b THEN x[a] ELSE x[k]]
CoordinatePermutation == pc = "done" /\ D >= 2 =>
   acc = ComputeLoss(Swap(w, 1, 2), Swap(f, 1, 2), K, [e \in 1..E |-> Swap(sim[e], 1, 2)], Swap(real, 1, 2))
=============================================================================
