\* mc: C11 RL scheduler
CONSTANTS
  Configs <- Cfg_MC_C11_rl
  BreakOnConverged = TRUE
  CkptBeforeBreak = TRUE
  SessionFinally = TRUE
  SeedOnlyAtZero = TRUE
  PersistTable = TRUE
  SeedsInParent = TRUE
INIT Init
NEXT Next
INVARIANT TypeOK
INVARIANT Aligned
INVARIANT Truthful
INVARIANT BatchesConsecutive
INVARIANT LabelNamesProducer
INVARIANT NoThreadLeft
INVARIANT HistoryIsCompletedPrefix
INVARIANT ObservableIsRef
PROPERTY NextCalibrateWorks
PROPERTY AppendOnly
