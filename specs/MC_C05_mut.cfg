\* mut: design mutant: samplers re-seeded at every calibrate() -> split run differs
CONSTANTS
  Configs <- Cfg_MC_C05_mut
  BreakOnConverged = TRUE
  CkptBeforeBreak = TRUE
  SessionFinally = TRUE
  SeedOnlyAtZero = FALSE
  PersistTable = TRUE
  SeedsInParent = TRUE
INIT Init
NEXT Next
INVARIANT ObservableIsRef
