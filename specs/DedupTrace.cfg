CONSTANTS
  Universe = {1, 2, 3, 4, 5, 6}
  MaxHist = 0
  BatchSizes = {}
  Budgets = {}
  RedrawWhole = FALSE
  OffByOne = FALSE
INIT TInit
NEXT TNext
CONSTRAINT Report
POSTCONDITION Post
