------------------------- MODULE LossInterfaceTrace -------------------------
(***************************************************************************)
(* Trace validation for C08.  A trace = a sequence of calls on ONE loss    *)
(* object.                                                                 *)
(*  table{D, E, w, f, sim, real, ktab, loss, calls, inputsame, statesame}  *)
(*     a BaseLoss subclass whose compute_loss_1d is the table ktab (rows    *)
(*     [member symbols.., real symbol, value]); w integer weights, f the   *)
(*     filters as value tables; loss = what compute_loss returned; calls = *)
(*     what each coordinate's compute_loss_1d actually received            *)
(*     ([member symbols.., real symbol]); TLC recomputes ComputeLoss.      *)
(*  eval{inp, res, statesame, inputsame, nonneg, needs_nonneg}             *)
(*     a built-in loss on input id inp gave result id res (ids = SHA of    *)
(*     the bytes): the same input must always give the same result         *)
(*  rel{kind, ok}   a relation between evaluations decided on floats with  *)
(*     the stated tolerance: "ensemble-permutation", "weight-linear",      *)
(*     "zero-weight", "coordinate-permutation", "zero-at-equality"         *)
(*  badlen{what, raised}   wrong-length weights / filters                  *)
(***************************************************************************)
EXTENDS Integers, Sequences, FiniteSets, TLC, Json, IOUtils

Doc    == JsonDeserialize(IOEnv.TRACE_FILE)
Traces == Doc.traces
VARIABLES tid, l, seen
T  == Traces[tid]
Ev == T[l]
More == l <= Len(T)

TInit == tid \in 1..Len(Traces) /\ l = 1 /\ seen = [x \in {} |-> ""]

RECURSIVE SumTo(_, _)
SumTo(f, n) == IF n = 0 THEN 0 ELSE f[n] + SumTo(f, n - 1)
(* value of the table kernel on (member symbols, real symbol): the row whose key matches *)
KVal(ktab, key) == LET rows == {r \in 1..Len(ktab) : SubSeq(ktab[r], 1, Len(key)) = key} IN
                     IF rows = {} THEN -1000000 ELSE ktab[CHOOSE r \in rows : TRUE][Len(key) + 1]
Filtered(e, i) == [m \in 1..e.E |-> e.f[i][e.sim[m][i] + 1]]                 \* filter i applied to member m's symbol of coordinate i
Key(e, i) == Filtered(e, i) \o <<e.real[i]>>
Expected(e) == SumTo([i \in 1..e.D |-> e.w[i] * KVal(e.ktab, Key(e, i))], e.D)
CountIn(sq, k) == Cardinality({j \in 1..Len(sq) : sq[j] = k})
AllKeys(e) == [i \in 1..e.D |-> Key(e, i)]
(* every coordinate whose weight is not zero was evaluated exactly once on its own filtered data; a coordinate of weight zero may be
   skipped (its term is zero whatever its value); nothing else was evaluated; the order of evaluation is free *)
CallsOK(e) == \A k \in {e.calls[j] : j \in 1..Len(e.calls)} \cup {Key(e, i) : i \in 1..e.D} :
                 /\ CountIn(e.calls, k) <= Cardinality({i \in 1..e.D : Key(e, i) = k})
                 /\ CountIn(e.calls, k) >= Cardinality({i \in 1..e.D : Key(e, i) = k /\ e.w[i] # 0})
TableOK(e) == /\ e.loss = Expected(e)                                         \* weighted sum of the single-coordinate values
              /\ CallsOK(e)                                                   \* filters on simulated series only, per coordinate, per member
              /\ e.inputsame
(* (statesame - the attributes of the loss object are unchanged - is logged for information only: a cache is legitimate as long as no
   result depends on it; dependence on earlier evaluations is decided behaviourally, by `seen` and by the "fresh-object" relations) *)

EvalOK(e) == /\ (e.inp \in DOMAIN seen => seen[e.inp] = e.res)              \* a function of its arguments only, whatever came before
             /\ e.inputsame
             /\ (e.needsnonneg => e.nonneg)

Step == /\ More
        /\ CASE Ev.e = "table" -> TableOK(Ev) /\ UNCHANGED seen
             [] Ev.e = "eval" -> EvalOK(Ev) /\ seen' = IF Ev.inp \in DOMAIN seen THEN seen ELSE seen @@ (Ev.inp :> Ev.res)
             [] Ev.e = "rel" -> Ev.ok /\ UNCHANGED seen
             [] Ev.e = "badlen" -> Ev.raised = "ValueError" /\ UNCHANGED seen
             [] OTHER -> FALSE
        /\ l' = l + 1 /\ UNCHANGED tid

Why == IF ~More THEN "end"
       ELSE CASE Ev.e = "table" /\ Ev.loss # Expected(Ev) -> "not-the-weighted-sum"
              [] Ev.e = "table" /\ ~Ev.inputsame -> "input-modified"
              [] Ev.e = "table" -> "filter-routing"
              [] Ev.e = "eval" /\ ~Ev.inputsame -> "input-modified"
              [] Ev.e = "eval" /\ Ev.needsnonneg /\ ~Ev.nonneg -> "negative"
              [] Ev.e = "eval" -> "depends-on-earlier-evaluations"
              [] Ev.e = "rel" -> Ev.kind
              [] Ev.e = "badlen" -> "wrong-length-not-rejected"
              [] OTHER -> "unexplained"
Report == /\ (l = Len(T) + 1 => PrintT(<<"OK", tid>>))
          /\ (More /\ ~ENABLED Step => PrintT(<<"STUCK", tid, l, Why>>))
=============================================================================
