-------------------------- MODULE RLExchangeTrace --------------------------
(***************************************************************************)
(* Trace validation for C10.  The real RLScheduler + CalibrationEnv + an   *)
(* agent run under a cooperative controller (harness/threads.py) that      *)
(* serialises the two threads at their synchronisation operations, so the  *)
(* recorded events are totally ordered.  Events:                           *)
(*   sess                       a session is about to start                *)
(*   tstart / exit / join       agent thread started / ended / joined      *)
(*   flag{v}                    the session flag was written               *)
(*   boot{batch,best}           bootstrap batch scored (reference loss set)*)
(*   policy{cid,a}              Agent.policy returned a (cid: ghost id)    *)
(*   put{cid,a}                 action queue put                           *)
(*   get{cid,a,batch,sampler}   action queue get by the calibration thread *)
(*                              + index of the sampler it then returned    *)
(*   out{batch,best} / end      outcome queue put (outcome / end marker)   *)
(*   rcv{kind,batch}            outcome queue get by the agent             *)
(*   learn{cid,a,r}             Agent.learn(action a, reward r/4096)       *)
(*   drain{n}                   n actions removed at the end of a session  *)
(*   idle{actq,outq,alive}      census after end_session                   *)
(*   deadlock                   the controller found no enabled thread     *)
(* The queues, the histories and the reference loss of RLExchange.tla are  *)
(* rebuilt from the events (FIFO order is checked), and its invariants are *)
(* evaluated in every state of the trace.                                  *)
(***************************************************************************)
EXTENDS RLExchange, Json, IOUtils

Doc    == JsonDeserialize(IOEnv.TRACE_FILE)
Traces == Doc.traces

VARIABLES tid, l, envBest, pend, nlearnAll, rewardOK
tvars == <<tid, l, envBest, pend, nlearnAll, rewardOK>>
T  == Traces[tid]
Ev == T.ev[l]
More == l <= Len(T.ev)
TScript == T.script

TInit ==
  /\ tid \in 1..Len(Traces) /\ l = 1 /\ envBest = 0 /\ pend = <<>> /\ nlearnAll = 0 /\ rewardOK = TRUE
  /\ actQ = <<>> /\ outQ = <<>> /\ stopped = TRUE /\ alive = FALSE /\ bestSet = FALSE /\ sess = 0 /\ nbatch = 0
  /\ nchoice = 0 /\ nlearn = 0 /\ chosen = <<>> /\ executed = <<>> /\ learned = <<>> /\ calDone = FALSE
  /\ todo = [self \in {"cal"} |-> 0] /\ got = [self \in {"cal"} |-> <<>>]
  /\ cid = [self \in {"agent"} |-> 0] /\ act = [self \in {"agent"} |-> 0] /\ res = [self \in {"agent"} |-> <<>>]
  /\ pc = [self \in {"cal", "agent"} |-> IF self = "cal" THEN "Sess" ELSE "Wait"]

Same(vs) == UNCHANGED vs
Rest == UNCHANGED <<stopped, bestSet, nbatch, nchoice, nlearn, calDone, todo, got, cid, act, res, tid>>

Expected(best) == IF best < envBest /\ envBest # 0 THEN ((envBest - best) * 4096) \div envBest ELSE 0   \* (undefined at a zero reference: the code raises there)

Apply(ev) ==
  /\ CASE ev.e = "sess" ->
            /\ pc' = [pc EXCEPT !["cal"] = "Loop"] /\ sess' = sess + 1
            /\ UNCHANGED <<actQ, outQ, alive, chosen, executed, learned, envBest, pend, nlearnAll, rewardOK>>
       [] ev.e = "tstart" ->
            /\ alive' = TRUE
            /\ UNCHANGED <<actQ, outQ, pc, sess, chosen, executed, learned, envBest, pend, nlearnAll, rewardOK>>
       [] ev.e \in {"flag", "join", "timeout"} ->       \* (a timed wait that ended empty-handed changes nothing by itself)
            UNCHANGED <<actQ, outQ, alive, pc, sess, chosen, executed, learned, envBest, pend, nlearnAll, rewardOK>>
       [] ev.e = "exit" ->
            /\ alive' = FALSE
            /\ UNCHANGED <<actQ, outQ, pc, sess, chosen, executed, learned, envBest, pend, nlearnAll, rewardOK>>
       [] ev.e = "boot" ->
            /\ envBest' = ev.best
            /\ UNCHANGED <<actQ, outQ, alive, pc, sess, chosen, executed, learned, pend, nlearnAll, rewardOK>>
       [] ev.e = "policy" ->
            /\ chosen' = Append(chosen, [cid |-> ev.cid, act |-> ev.a])
            /\ UNCHANGED <<actQ, outQ, alive, pc, sess, executed, learned, envBest, pend, nlearnAll, rewardOK>>
       [] ev.e = "put" ->
            /\ Len(chosen) > 0 /\ chosen[Len(chosen)] = [cid |-> ev.cid, act |-> ev.a]
            /\ actQ' = Append(actQ, <<ev.cid, ev.a>>)
            /\ UNCHANGED <<outQ, alive, pc, sess, chosen, executed, learned, envBest, pend, nlearnAll, rewardOK>>
       [] ev.e = "get" ->
            /\ actQ # <<>> /\ Head(actQ) = <<ev.cid, ev.a>>
            /\ ev.sampler = ev.a                              \* the scheduler returns the sampler whose index the agent chose
            /\ actQ' = Tail(actQ)
            /\ executed' = Append(executed, [batch |-> ev.batch, cid |-> ev.cid, act |-> ev.a])
            /\ UNCHANGED <<outQ, alive, pc, sess, chosen, learned, envBest, pend, nlearnAll, rewardOK>>
       [] ev.e = "out" ->
            /\ outQ' = Append(outQ, <<"out", ev.batch, ev.best>>)
            /\ UNCHANGED <<actQ, alive, pc, sess, chosen, executed, learned, envBest, pend, nlearnAll, rewardOK>>
       [] ev.e = "end" ->
            /\ outQ' = Append(outQ, <<"end">>)
            /\ UNCHANGED <<actQ, alive, pc, sess, chosen, executed, learned, envBest, pend, nlearnAll, rewardOK>>
       [] ev.e = "rcv" ->
            /\ outQ # <<>> /\ Head(outQ)[1] = ev.kind
            /\ (ev.kind = "out" => Head(outQ)[2] = ev.batch)
            /\ pend' = Head(outQ) /\ outQ' = Tail(outQ)
            /\ UNCHANGED <<actQ, alive, pc, sess, chosen, executed, learned, envBest, nlearnAll, rewardOK>>
       [] ev.e = "learn" ->
            /\ pend # <<>>
            /\ learned' = Append(learned, [cid |-> ev.cid, act |-> ev.a, batch |-> IF pend[1] = "out" THEN pend[2] ELSE -1])
            /\ rewardOK' = (rewardOK /\ (pend[1] = "out" => ev.r = Expected(pend[3])))
            /\ envBest' = IF pend[1] = "out" /\ pend[3] < envBest THEN pend[3] ELSE envBest
            /\ nlearnAll' = nlearnAll + 1
            /\ pend' = <<>>
            /\ UNCHANGED <<actQ, outQ, alive, pc, sess, chosen, executed>>
       [] ev.e = "drain" ->
            /\ ev.n = Len(actQ) /\ actQ' = <<>>
            /\ UNCHANGED <<outQ, alive, pc, sess, chosen, executed, learned, envBest, pend, nlearnAll, rewardOK>>
       [] ev.e = "idle" ->
            /\ ev.actq = Len(actQ) /\ ev.outq = Len(outQ) /\ ev.alive = alive
            /\ pc' = [pc EXCEPT !["cal"] = "Sess"]
            /\ UNCHANGED <<actQ, outQ, alive, sess, chosen, executed, learned, envBest, pend, nlearnAll, rewardOK>>
       [] OTHER -> FALSE

(* the k-th agent-driven batch executes what the (deterministic) agent chooses after exactly k-1 learn() calls *)

(* the outcome handed to the agent is the best loss over all batches scored so far (the harness logs every batch's own minimum) *)
HasMin(e) == e.e \in {"boot", "out"} /\ "bmin" \in DOMAIN e
BatchMins(k) == {T.ev[i].bmin : i \in {j \in 1..k : HasMin(T.ev[j])}}
RunningBestOK == (Ev.e = "out" /\ HasMin(Ev)) => \A m \in BatchMins(l) : Ev.best <= m /\ Ev.best \in BatchMins(l)

Step == More /\ l' = l + 1 /\ Rest /\ RunningBestOK /\ Apply(Ev)

(* for other agents (epsilon-greedy): the same agent, seed, plan and losses run under another schedule executed T.ref *)
TTimingIndependent ==
  /\ TScript # <<-1>> => \A k \in 1..Len(executed) : executed[k].act = TScript[((k - 1) % Len(TScript)) + 1]
  /\ T.ref # <<-1>> => \A k \in 1..Len(executed) : k <= Len(T.ref) /\ executed[k].act = T.ref[k]

InvNames == <<"NoPhantomLearn", "Attribution", "AtMostOnce", "LearnExactlyOnce", "NoLeftover", "TimingIndependent", "RewardFromOwnOutcome">>
InvVal(n) == CASE n = "NoPhantomLearn" -> NoPhantomLearn [] n = "Attribution" -> Attribution [] n = "AtMostOnce" -> AtMostOnce
               [] n = "LearnExactlyOnce" -> LearnExactlyOnce [] n = "NoLeftover" -> NoLeftover
               [] n = "TimingIndependent" -> TTimingIndependent [] n = "RewardFromOwnOutcome" -> rewardOK
Failing == {i \in 1..Len(InvNames) : ~InvVal(InvNames[i])}

Why == IF ~More THEN "end"
       ELSE CASE Ev.e = "deadlock" -> "deadlock: no thread can make a step"
              [] Ev.e = "get" /\ (actQ = <<>> \/ Head(actQ) # <<Ev.cid, Ev.a>>) -> "action queue is not FIFO / unexpected action"
              [] Ev.e = "get" -> "scheduler returned a sampler other than the one chosen"
              [] Ev.e = "rcv" -> "outcome queue is not FIFO / unexpected message"
              [] Ev.e = "out" /\ ~RunningBestOK -> "RunningBest: the outcome sent to the agent is not the best loss over the batches scored so far"
              [] Ev.e = "idle" -> "census after end_session differs from the queues rebuilt from the events"
              [] OTHER -> "event not explained"

Report ==
  /\ (l = Len(T.ev) + 1 => PrintT(<<"OK", tid>>))
  /\ (Failing # {} => PrintT(<<"BAD", tid, l, InvNames[CHOOSE i \in Failing : TRUE]>>))
  /\ (More /\ Failing = {} /\ ~ENABLED Step => PrintT(<<"STUCK", tid, l, Why>>))
  /\ Failing = {}
=============================================================================
