\* gen: all loss scripts over {-20, 0, 6}
CONSTANTS
  Configs <- Cfg_Gen_C14
  BreakOnConverged = TRUE
  CkptBeforeBreak = TRUE
  SessionFinally = TRUE
  SeedOnlyAtZero = TRUE
  PersistTable = TRUE
  SeedsInParent = TRUE
INIT GInit
NEXT GNext
CONSTRAINT Bound
INVARIANT Emit
