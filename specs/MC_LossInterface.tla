-------------------------- MODULE MC_LossInterface --------------------------
EXTENDS LossInterface
(* all kernels for one member over two symbols into {0,1,2}; a family of kernels (symmetric and not) for two members *)
K1All == [ {<<m, r>> : m \in [1..1 -> 0..1], r \in 0..1} -> 0..2 ]
K2Fam == { [x \in {<<m, r>> : m \in [1..2 -> Sym], r \in Sym} |-> (x[1][1] + 2 * x[1][2] + x[2]) % 3],
           [x \in {<<m, r>> : m \in [1..2 -> Sym], r \in Sym} |-> IF x[1][1] = x[2] /\ x[1][2] = x[2] THEN 0 ELSE 1 + x[1][1]],
           [x \in {<<m, r>> : m \in [1..2 -> Sym], r \in Sym} |-> x[1][1] * x[1][2] + x[2]] }
=============================================================================
