CONSTANTS
  NActions = 3
  Alpha <- AQuarter
  Rewards <- R4
  Losses <- L3
  MaxSteps = 4
  StepRule = "published"
INIT Init
NEXT Next
INVARIANT SampleAverageIsMean
INVARIANT RewardInRange
INVARIANT GreedyNonEmpty
PROPERTY OthersUnchanged
PROPERTY OneAtATime
PROPERTY RefOnlyDecreases
