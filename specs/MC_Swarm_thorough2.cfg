CONSTANTS
  NP = 3
  Losses = {0, 1, 2}
  MaxLen = 8
  StartRule = "len"
INIT Init
NEXT Next
INVARIANT TypeOK
INVARIANT BestIsMinOfOwn
INVARIANT GlobalBestMinimal
INVARIANT WindowIsOwn
PROPERTY BestMonotone
PROPERTY HistoryAppendOnly
