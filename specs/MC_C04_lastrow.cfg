CONSTANTS
  Runs = {"A", "A2"}
  Shared = {"A2"}
  MaxRows = 2
  MaxSaves = 3
  AppendInPlace = "lastrow"
  Crashes = FALSE
  CrossCheck = FALSE
  SqlDeleteInTxn = TRUE
INIT Init
NEXT Next
INVARIANT RestoreEqualsSaved
INVARIANT SqlRestoreEqualsSaved
