--------------------------- MODULE GenCalibration ---------------------------
(***************************************************************************)
(* Script generation (specification -> code).  Calibration.tla is extended *)
(* with a history variable `ops` recording the externally controllable     *)
(* choices of a behaviour: the public calls (calibrate(n), create          *)
(* checkpoint, restore, set_samplers), the scripted loss of every row, the *)
(* agent's choice of every RL batch and the invocation at which a plug-in  *)
(* raises.  TLC explores the configuration exhaustively and prints `ops`   *)
(* in every state in which the calibrator is at rest; the harness replays  *)
(* each printed script on the real Calibrator.                             *)
(***************************************************************************)
EXTENDS MC_Calibration, Json

VARIABLES ops, cnt, faulted
gvars == <<vars, ops, cnt, faulted>>

GInit == Init /\ ops = <<>> /\ cnt = [sampler |-> 0, model |-> 0, loss |-> 0] /\ faulted = FALSE

Rec(op) == ops' = Append(ops, op)
Same == UNCHANGED <<ops, cnt, faulted>>

GNext ==
  /\ \/ \E n \in CallSizes : Calibrate(n) /\ Rec(<<"call", n>>) /\ faulted' = FALSE /\ UNCHANGED cnt
     \/ (SeedCascade \/ StartSession \/ Refuse \/ Loop \/ DrawSeeds \/ AppendRows \/ Update \/ ConvCheck \/ Checkpoint
          \/ EndSession \/ Return \/ Unwind) /\ Same
     \/ Pick /\ (IF Kind = "rl" /\ best # None THEN Rec(<<"choose", cur'.s - 1>>) ELSE UNCHANGED ops) /\ UNCHANGED <<cnt, faulted>>
     \/ Sample /\ cnt' = [cnt EXCEPT !.sampler = @ + 1] /\ UNCHANGED <<ops, faulted>>
     \/ \E t \in Tasks : Complete(t) /\ cnt' = [cnt EXCEPT !.model = @ + 1] /\ UNCHANGED <<ops, faulted>>
     \/ \E a \in LossVals : Loss(a) /\ cnt' = [cnt EXCEPT !.loss = @ + 1] /\ Rec(<<"loss", a>>) /\ UNCHANGED faulted
     \/ \E at \in FaultsAt : /\ ~faulted /\ Fault(at)
                             /\ Rec(<<"fault", at, cnt[at] + 1>>) /\ faulted' = TRUE
                             /\ cnt' = [cnt EXCEPT ![at] = @ + 1]
     \/ CreateCheckpoint /\ Rec(<<"mkckpt">>) /\ UNCHANGED <<cnt, faulted>>
     \/ Restore /\ Rec(<<"restore">>) /\ UNCHANGED <<cnt, faulted>>
     \/ \E ln \in AltLineUps : SetSamplers(ln) /\ Rec(<<"set", ln>>) /\ UNCHANGED <<cnt, faulted>>
     \/ \E ln \in AltLineUps : SetScheduler(ln) /\ Rec(<<"setsched", ln>>) /\ UNCHANGED <<cnt, faulted>>
  /\ UNCHANGED K

(* a script is emitted whenever the object is at rest after at least one call *)
Emit == (pc \in {"idle", "raised"} /\ Len(ops) > 0 /\ ops[Len(ops)][1] \notin {"mkckpt", "set", "setsched"})
           => PrintT(<<"SCRIPT", ToJson(ops)>>)
(* keep the exploration finite and the scripts meaningful: no two operations between calls in a row *)
Bound == Len(ops) < 2 \/ ~(ops[Len(ops)][1] \in {"mkckpt", "restore", "set", "setsched"} /\ ops[Len(ops) - 1][1] \in {"mkckpt", "restore", "set", "setsched"})
=============================================================================
