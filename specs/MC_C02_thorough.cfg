\* mc: C02 thorough
CONSTANTS
  Configs <- Cfg_MC_C02_thorough
  BreakOnConverged = TRUE
  CkptBeforeBreak = TRUE
  SessionFinally = TRUE
  SeedOnlyAtZero = TRUE
  PersistTable = TRUE
  SeedsInParent = TRUE
INIT Init
NEXT Next
INVARIANT TypeOK
INVARIANT Aligned
INVARIANT Truthful
INVARIANT BatchesConsecutive
INVARIANT LabelNamesProducer
INVARIANT NoThreadLeft
INVARIANT RoundRobin
INVARIANT BatchSizes
INVARIANT ObservableIsRef
INVARIANT HistoryIsCompletedPrefix
PROPERTY AppendOnly
PROPERTY NextCalibrateWorks
