-------------------------- MODULE QuasiRandomTrace --------------------------
(***************************************************************************)
(* Trace validation for C13 (integers only; see harness/c13.py).           *)
(*   vdc{b, first, den, nums}   halton(len, [b], first): numerators of the *)
(*                              returned values over den = b^K             *)
(*   primes{k, ps}              get_n_primes(k)                            *)
(*   halton{s, d, sizes, nums}  one HaltonSampler object: seed-determined  *)
(*                              start s, successive batch sizes, and for   *)
(*                              every emitted point (pre-snap, captured at *)
(*                              the call of digitize_data) its numerators  *)
(*                              over dens[j]                               *)
(*   rseq{a, pts, sizes, anchor} one RSequenceSampler object: points and   *)
(*                              the step vector scaled by 2^30; anchor =   *)
(*                              first point agrees with (offset + s*alpha) *)
(***************************************************************************)
EXTENDS QuasiRandom, Json, IOUtils

Doc    == JsonDeserialize(IOEnv.TRACE_FILE)
Traces == Doc.traces
VARIABLES tid, l
T  == Traces[tid]
Ev == T[l]
More == l <= Len(T)
M30 == 1073741824

TInit == /\ tid \in 1..Len(Traces) /\ l = 1 /\ start = 0 /\ cursor = 0 /\ emitted = <<>> /\ nb = 0

(* numerator of RadInv(n, b) rescaled to the denominator den (a power of b not smaller than RadInv's own) *)
NumOver(n, b, den) == LET r == RadInv(n, b) IN r[1] * (den \div r[2])

VdcOK(e) == \A k \in 1..Len(e.nums) : e.nums[k] = NumOver(e.first + k, e.b, e.den)
PrimesOK(e) == Len(e.ps) = e.k /\ \A k \in 1..e.k : e.ps[k] = NthPrime(k)
RECURSIVE SumTo(_, _)
SumTo(sizes, i) == IF i = 0 THEN 0 ELSE sizes[i] + SumTo(sizes, i - 1)
Total(sizes) == SumTo(sizes, Len(sizes))
HaltonOK(e) == /\ e.s >= 20 /\ e.s < 65536                                        \* seed-determined start in [20, 2^16)
               /\ e.sok                                                            \* ... and it is the start the seed determines
               /\ Len(e.nums) = Total(e.sizes)                                     \* every batch has its size
               /\ \A k \in 1..Len(e.nums) : \A j \in 1..e.d :
                     e.nums[k][j] = NumOver(e.s + k, e.primes[j], e.dens[j])       \* k-th point overall = radical inverse of s + k
Res(x) == LET m == x % M30 IN IF m > M30 \div 2 THEN m - M30 ELSE m
RseqOK(e) == /\ Len(e.pts) = Total(e.sizes)
             /\ e.anchor
             /\ \A k \in 1..Len(e.pts) - 1 : \A j \in 1..Len(e.a) :
                   Res(e.pts[k + 1][j] - e.pts[k][j] - e.a[j]) \in -2..2          \* advance by alpha modulo 1, within and across batches

EvOK(e) == CASE e.e = "vdc" -> VdcOK(e) [] e.e = "primes" -> PrimesOK(e) [] e.e = "halton" -> HaltonOK(e)
             [] e.e = "rseq" -> RseqOK(e) [] OTHER -> FALSE
Step == /\ More /\ EvOK(Ev) /\ l' = l + 1 /\ UNCHANGED <<tid, vars>>
Why == IF ~More THEN "end"
       ELSE CASE Ev.e = "vdc" -> "halton() differs from the radical inverse"
              [] Ev.e = "primes" -> "get_n_primes differs from the first primes"
              [] Ev.e = "halton" -> "HaltonSampler: point k is not the radical inverse of start+k (gap, repetition, wrong start or size)"
              [] Ev.e = "rseq" -> "RSequenceSampler: consecutive points do not advance by the golden-ratio vector (gap / reset / wrong anchor)"
              [] OTHER -> "event not explained"
Report == /\ (l = Len(T) + 1 => PrintT(<<"OK", tid>>))
          /\ (More /\ ~EvOK(Ev) => PrintT(<<"STUCK", tid, l, Why>>))
=============================================================================
