-------------------------------- MODULE Dedup --------------------------------
(***************************************************************************)
(* C12 - BaseSampler.sample (black_it/samplers/base.py): draw a batch,     *)
(* then up to MaxPasses rounds of                                          *)
(*     find the repeated positions / redraw that many points / substitute  *)
(* A position of the batch is a *repeat* when its point occurs more than   *)
(* once in history + batch (find_and_get_duplicates).  The order in which  *)
(* the redrawn points are assigned to the repeated positions is left       *)
(* nondeterministic (the code's order follows np.unique; the property does *)
(* not depend on it).  Points are abstract ids; histories may themselves   *)
(* contain repeats.                                                        *)
(***************************************************************************)
EXTENDS Integers, Sequences, FiniteSets, TLC

CONSTANTS Universe,     \* set of points
          MaxHist,      \* histories of 0..MaxHist rows
          BatchSizes,   \* set of batch sizes explored
          Budgets,      \* set of max_deduplication_passes explored
          \* design mutants (non-vacuity)
          RedrawWhole,  \* TRUE: every pass asks for batch_size points and replaces the whole batch
          OffByOne      \* TRUE: one pass fewer than budgeted

VARIABLES hist, bs, budget, batch, first, passes, asked, repeatsAt, phase
vars == <<hist, bs, budget, batch, first, passes, asked, repeatsAt, phase>>

Count(x, sq) == Cardinality({i \in 1..Len(sq) : sq[i] = x})
(* positions of the batch whose point occurs more than once in history + batch *)
Repeats(b, h) == {i \in 1..Len(b) : Count(b[i], h) + Count(b[i], b) > 1}

SeqsUpTo(S, n) == UNION {[1..k -> S] : k \in 0..n}

Init == /\ hist \in SeqsUpTo(Universe, MaxHist)
        /\ bs \in BatchSizes /\ budget \in Budgets
        /\ batch = <<>> /\ first = <<>> /\ passes = 0 /\ asked = <<>> /\ repeatsAt = <<>> /\ phase = "start"

(* samples = self.sample_batch(self.batch_size, ...) *)
FirstDraw == /\ phase = "start"
             /\ \E d \in [1..bs -> Universe] : batch' = d /\ first' = d
             /\ asked' = <<bs>>
             /\ phase' = "loop"
             /\ UNCHANGED <<hist, bs, budget, passes, repeatsAt>>

Limit == IF OffByOne THEN budget - 1 ELSE budget

(* one deduplication pass; `new` assigns the redrawn points to positions *)
PassWith(new) ==
        /\ phase = "loop" /\ passes < Limit
        /\ LET dups == Repeats(batch, hist) IN
             /\ dups # {}
             /\ DOMAIN new = (IF RedrawWhole THEN 1..bs ELSE dups)
             /\ batch' = [i \in 1..bs |-> IF i \in DOMAIN new THEN new[i] ELSE batch[i]]
             /\ asked' = Append(asked, IF RedrawWhole THEN bs ELSE Cardinality(dups))
             /\ repeatsAt' = Append(repeatsAt, dups)
             /\ passes' = passes + 1
             /\ phase' = "loop"
        /\ UNCHANGED <<hist, bs, budget, first>>
(* no repeat is left: the loop stops *)
Stop == /\ phase = "loop" /\ passes < Limit
        /\ Repeats(batch, hist) = {}
        /\ phase' = "done"
        /\ UNCHANGED <<hist, bs, budget, batch, first, passes, asked, repeatsAt>>
Pass == \/ Stop
        \/ \E new \in [(IF RedrawWhole THEN 1..bs ELSE Repeats(batch, hist)) -> Universe] : PassWith(new)

(* the budget is used up: return whatever the batch holds *)
GiveUp == /\ phase = "loop" /\ passes >= Limit
          /\ phase' = "done"
          /\ UNCHANGED <<hist, bs, budget, batch, first, passes, asked, repeatsAt>>

Next == FirstDraw \/ Pass \/ GiveUp
Spec == Init /\ [][Next]_vars

(* ---- properties ---------------------------------------------------------------------------------- *)
ShapePreserved == phase # "start" => Len(batch) = bs
(* points that are not repeats are never altered *)
NonRepeatsUntouched == [][phase = "loop" => \A i \in 1..Len(batch) : i \notin Repeats(batch, hist) => batch'[i] = batch[i]]_vars
(* the generator is asked each time for exactly as many new points as there were repeats *)
AskedExactlyRepeats == /\ (asked # <<>> => asked[1] = bs)
                       /\ \A p \in 1..Len(repeatsAt) : asked[p + 1] = Cardinality(repeatsAt[p])
(* a repeat is returned only after every budgeted pass was run and still left a repeat *)
RepeatOnlyIfBudgetExhausted == phase = "done" /\ Repeats(batch, hist) # {} =>
                                  /\ passes = budget
                                  /\ \A p \in 1..budget : repeatsAt[p] # {}
(* positions never redrawn hold the first draw *)
FirstDrawKept == phase = "done" => \A i \in 1..bs : (\A p \in 1..Len(repeatsAt) : i \notin repeatsAt[p]) => batch[i] = first[i]
=============================================================================
