\* mc: C18: ids never reassigned, labels name their producer, table recoverable from disk
CONSTANTS
  Configs <- Cfg_MC_C18
  BreakOnConverged = TRUE
  CkptBeforeBreak = TRUE
  SessionFinally = TRUE
  SeedOnlyAtZero = TRUE
  PersistTable = TRUE
  SeedsInParent = TRUE
INIT Init
NEXT Next
INVARIANT TypeOK
INVARIANT Aligned
INVARIANT Truthful
INVARIANT BatchesConsecutive
INVARIANT LabelNamesProducer
INVARIANT NoThreadLeft
INVARIANT IdsInjective
INVARIANT RecoverableFromDisk
PROPERTY IdsNeverReassigned
PROPERTY AppendOnly
