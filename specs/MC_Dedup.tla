------------------------------ MODULE MC_Dedup ------------------------------
EXTENDS Dedup, Json
(* script generation: every behaviour is identified by its history, batch size, budget and the successive draws *)
VARIABLE draws
GInit == Init /\ draws = <<>>
GNext == \/ /\ FirstDraw /\ draws' = <<batch'>>
         \/ /\ Pass /\ draws' = IF passes' = passes THEN draws
                                ELSE Append(draws, [i \in 1..Cardinality(repeatsAt'[passes']) |->
                                        batch'[CHOOSE k \in repeatsAt'[passes'] : Cardinality({j \in repeatsAt'[passes'] : j < k}) = i - 1]])
         \/ /\ GiveUp /\ UNCHANGED draws
Emit == phase = "done" => PrintT(<<"SCRIPT", ToJson([hist |-> hist, bs |-> bs, budget |-> budget, draws |-> draws])>>)
=============================================================================
