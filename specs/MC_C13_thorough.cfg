CONSTANTS
  Starts = {0, 1, 20, 1023, 65535, 69000}
  BatchSizes = {1, 2, 3}
  MaxBatches = 4
  Dims = 5
  CursorRule = "advance"
INIT Init
NEXT Next
INVARIANT Contiguous
INVARIANT Distinct
INVARIANT InUnitCube
