--------------------------- MODULE CheckpointTrace ---------------------------
(***************************************************************************)
(* Trace validation for C04 / C06 on the real save/load functions of both  *)
(* back-ends.  Events (b = "json" | "sqlite"):                              *)
(*   save{b, run, rows}         save_calibrator_state completed             *)
(*   interrupted{b, run, rows, point}   a save of that state was cut short: *)
(*                              the folder was materialised as it is left   *)
(*                              by a process death at `point`, or the       *)
(*                              statement `point` of the SQLite save raised *)
(*   load{b, err, comp}         load_calibrator_state (+ restore): err, or  *)
(*                              for every component the state it equals:    *)
(*                              params/sched/loss <<run,rows>>, csv         *)
(*                              <<run,rows,cut>>, h5 the run each series    *)
(*                              row belongs to ("?" / "zero" if to none)    *)
(* The property-level operators of Checkpoint.tla decide: after a completed *)
(* save the load must be Whole(saved) (C04); after an interrupted one it    *)
(* must be an error, Whole(previous) or Whole(new) (C06), and for SQLite    *)
(* the previous checkpoint must still load (FailedSaveKeepsPrevious).       *)
(***************************************************************************)
EXTENDS Checkpoint, Json, IOUtils

Doc    == JsonDeserialize(IOEnv.TRACE_FILE)
Traces == Doc.traces

VARIABLES tid, l, saved, pending
(* saved[b]: last completely saved state (<<>> none); pending[b]: state whose save was interrupted (<<>> none) *)
tvars == <<tid, l, saved, pending>>
T  == Traces[tid]
Ev == T.ev[l]
More == l <= Len(T.ev)
Backends == {"json", "sqlite"}

TInit == /\ tid \in 1..Len(Traces) /\ l = 1
         /\ saved = [b \in Backends |-> <<>>] /\ pending = [b \in Backends |-> <<>>]
         /\ Init

St(e) == [run |-> e.run, rows |-> e.rows]
Comp(e) == [params |-> e.comp.params, sched |-> e.comp.sched, loss |-> e.comp.loss, csv |-> e.comp.csv, h5 |-> e.comp.h5]

LoadOK(e) ==
  LET b == e.b IN
  IF pending[b] = <<>>
    THEN /\ saved[b] # <<>>                                                   \* C04: RestoreEqualsSaved
         /\ ~e.err
         /\ Comp(e) = Whole(saved[b][1])
    ELSE /\ \/ e.err                                                          \* C06: NoSilentHybrid
            \/ (saved[b] # <<>> /\ ~e.err /\ Comp(e) = Whole(saved[b][1]))
            \/ (~e.err /\ Comp(e) = Whole(pending[b][1]))
         /\ (b = "sqlite" /\ saved[b] # <<>> => ~e.err /\ Comp(e) = Whole(saved[b][1]))   \* FailedSaveKeepsPrevious

Step ==
  /\ More
  /\ l' = l + 1
  /\ CASE Ev.e = "save" -> /\ saved' = [saved EXCEPT ![Ev.b] = <<St(Ev)>>]
                           /\ pending' = [pending EXCEPT ![Ev.b] = <<>>]
       [] Ev.e = "interrupted" -> /\ pending' = [pending EXCEPT ![Ev.b] = <<St(Ev)>>]
                                  /\ UNCHANGED saved
       [] Ev.e = "load" -> /\ LoadOK(Ev)
                           /\ UNCHANGED <<saved, pending>>
       [] OTHER -> FALSE
  /\ UNCHANGED <<tid, vars>>

Why == IF ~More THEN "end"
       ELSE IF Ev.e # "load" THEN "event not explained"
       ELSE IF pending[Ev.b] = <<>> THEN "restore differs from the saved state"
       ELSE IF Ev.b = "sqlite" THEN "failed SQLite save lost or changed the previous checkpoint"
       ELSE "silent hybrid after an interrupted save"

Report == /\ (l = Len(T.ev) + 1 => PrintT(<<"OK", tid>>))
          /\ (More /\ ~ENABLED Step => PrintT(<<"STUCK", tid, l, Why>>))
=============================================================================
