\* gen: set_samplers / restore / calls
CONSTANTS
  Configs <- Cfg_Gen_C18
  BreakOnConverged = TRUE
  CkptBeforeBreak = TRUE
  SessionFinally = TRUE
  SeedOnlyAtZero = TRUE
  PersistTable = TRUE
  SeedsInParent = TRUE
INIT GInit
NEXT GNext
CONSTRAINT Bound
INVARIANT Emit
