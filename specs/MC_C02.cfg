\* mc: C02: aligned / truthful / append-only over all sequences of calibrate(n), faults and restores included
CONSTANTS
  Configs <- Cfg_MC_C02
  BreakOnConverged = TRUE
  CkptBeforeBreak = TRUE
  SessionFinally = TRUE
  SeedOnlyAtZero = TRUE
  PersistTable = TRUE
  SeedsInParent = TRUE
INIT Init
NEXT Next
INVARIANT TypeOK
INVARIANT Aligned
INVARIANT Truthful
INVARIANT BatchesConsecutive
INVARIANT LabelNamesProducer
INVARIANT NoThreadLeft
INVARIANT RoundRobin
INVARIANT BatchSizes
INVARIANT ObservableIsRef
INVARIANT HistoryIsCompletedPrefix
PROPERTY AppendOnly
PROPERTY NextCalibrateWorks
