------------------------------- MODULE Swarm -------------------------------
(***************************************************************************)
(* Growth beyond the listed properties: the bookkeeping state machine of   *)
(* ParticleSwarmSampler (black_it/samplers/particle_swarm.py) inside a     *)
(* calibration whose history it shares with other samplers.                *)
(*                                                                         *)
(*   hist    the loss column of the calibrator's history (small integers;  *)
(*           Inf = 99 stands for +infinity)                                *)
(*   up      is_set_up                                                     *)
(*   best    _best_position_losses, one per particle                       *)
(*   g       _global_best_particle_id (1-based here)                       *)
(*   start   _previous_batch_index_start                                   *)
(*   phase   "idle": the calibrator may call sample(); "sampled": the      *)
(*           swarm's batch is being simulated and will be appended next    *)
(*   own     history variable: the losses each particle has received       *)
(*                                                                         *)
(* One action per step of the code: SetUp (first sample_batch), Step       *)
(* (_update_best + _do_step + start bookkeeping), Reset; the environment   *)
(* (the Calibrator) Evaluates the swarm's batch (appends NP rows right     *)
(* after the call) and appends Foreign rows of other samplers in between.  *)
(* The window read by _update_best is hist[start+1 .. start+NP], truncated *)
(* by zip() when the history is shorter.                                   *)
(***************************************************************************)
EXTENDS Naturals, Sequences, FiniteSets

CONSTANTS NP,          \* number of particles = batch size
          Losses,      \* finite loss values (subset of 0..98)
          MaxLen,      \* bound on Len(hist) for the exhaustive configuration
          StartRule    \* "len": start := Len(hist) at every call (the code); "stale": only at set-up (mutant)

Inf == 99
VARIABLES hist, up, best, g, start, phase, own
vars == <<hist, up, best, g, start, phase, own>>

MinOf(S) == CHOOSE m \in S : \A x \in S : m <= x
FirstArgMin(h) == CHOOSE i \in 1..Len(h) : (\A j \in 1..Len(h) : h[i] <= h[j]) /\ (\A j \in 1..i - 1 : h[j] > h[i])

(* the rows of the previous batch as _update_best slices them *)
Window(h, s, np) == LET n == IF Len(h) <= s THEN 0 ELSE IF Len(h) - s < np THEN Len(h) - s ELSE np
                    IN [i \in 1..n |-> h[s + i]]

(* the sequential loop of _update_best over the particles p..Len(w) *)
RECURSIVE Fold(_, _, _, _)
Fold(w, p, b, gb) ==
  IF p > Len(w) THEN <<b, gb>>
  ELSE IF b[p] > w[p]
       THEN LET b2  == [b EXCEPT ![p] = w[p]]
                gb2 == IF w[p] < b2[gb] THEN p ELSE gb        \* compared with the already updated table, as the code does
            IN Fold(w, p + 1, b2, gb2)
       ELSE Fold(w, p + 1, b, gb)

Fresh(np) == [p \in 1..np |-> Inf]
StepResult(h, b, gb, s, np) == Fold(Window(h, s, np), 1, b, gb)

P == 1..NP
Init == /\ hist = <<>> /\ up = FALSE /\ best = Fresh(NP) /\ g = 1 /\ start = 0 /\ phase = "idle"
        /\ own = [p \in P |-> {}]

SetUp == /\ ~up /\ phase = "idle"
         /\ up' = TRUE /\ best' = Fresh(NP) /\ g' = 1 /\ start' = Len(hist) /\ phase' = "sampled"
         /\ own' = [p \in P |-> {}]
         /\ UNCHANGED hist

Step == /\ up /\ phase = "idle"
        /\ LET r == StepResult(hist, best, g, start, NP) IN best' = r[1] /\ g' = r[2]
        /\ start' = IF StartRule = "len" THEN Len(hist) ELSE start
        /\ phase' = "sampled"
        /\ UNCHANGED <<hist, up, own>>

Evaluate == /\ phase = "sampled" /\ Len(hist) + NP <= MaxLen
            /\ \E w \in [P -> Losses \cup {Inf}] :
                  /\ hist' = hist \o [i \in 1..NP |-> w[i]]
                  /\ own' = [p \in P |-> own[p] \cup {w[p]}]
            /\ phase' = "idle"
            /\ UNCHANGED <<up, best, g, start>>

Foreign == /\ phase = "idle" /\ Len(hist) < MaxLen
           /\ \E x \in Losses \cup {Inf} : hist' = Append(hist, x)
           /\ UNCHANGED <<up, best, g, start, phase, own>>

Reset == /\ up /\ phase = "idle"
         /\ up' = FALSE /\ UNCHANGED <<hist, best, g, start, phase, own>>

Next == SetUp \/ Step \/ Evaluate \/ Foreign \/ Reset
Spec == Init /\ [][Next]_vars

TypeOK == /\ hist \in Seq(Losses \cup {Inf}) /\ up \in BOOLEAN /\ best \in [P -> Losses \cup {Inf}] /\ g \in P
          /\ start \in 0..MaxLen /\ phase \in {"idle", "sampled"}

(* right after a call every particle's best loss is the least loss that particle ever received (whatever other samplers
   appended in between): the window always lands on the swarm's own previous batch *)
BestIsMinOfOwn == (up /\ phase = "sampled") => \A p \in P : best[p] = MinOf(own[p] \cup {Inf})
(* the global attractor is a particle of least best loss *)
GlobalBestMinimal == up => \A p \in P : best[g] <= best[p]
(* the window starts where the swarm's batch will be / was appended *)
WindowIsOwn == (up /\ phase = "sampled") => start = Len(hist)
(* best losses never increase while the swarm is set up *)
BestMonotone == [][(up /\ up') => \A p \in P : best'[p] <= best[p]]_vars
(* only the calibrator extends the history; the swarm's calls leave it alone *)
HistoryAppendOnly == [][Len(hist') >= Len(hist) /\ SubSeq(hist', 1, Len(hist)) = hist]_vars
=============================================================================
