\* gen: RL, no Halton, a class twice in the set
CONSTANTS
  Configs <- Cfg_Gen_C09_rl3
  BreakOnConverged = TRUE
  CkptBeforeBreak = TRUE
  SessionFinally = TRUE
  SeedOnlyAtZero = TRUE
  PersistTable = TRUE
  SeedsInParent = TRUE
INIT GInit
NEXT GNext
CONSTRAINT Bound
INVARIANT Emit
