\* mc: C05: every composition of <= 4 batches, every cut live or checkpoint/restore
CONSTANTS
  Configs <- Cfg_MC_C05
  BreakOnConverged = TRUE
  CkptBeforeBreak = TRUE
  SessionFinally = TRUE
  SeedOnlyAtZero = TRUE
  PersistTable = TRUE
  SeedsInParent = TRUE
INIT Init
NEXT Next
INVARIANT TypeOK
INVARIANT Aligned
INVARIANT Truthful
INVARIANT BatchesConsecutive
INVARIANT LabelNamesProducer
INVARIANT NoThreadLeft
INVARIANT ObservableIsRef
INVARIANT NoCtorRoot
PROPERTY AppendOnly
