\* mut: pinned design: session() without try/finally -> agent thread left running
CONSTANTS
  Configs <- Cfg_MC_C11_mut
  BreakOnConverged = TRUE
  CkptBeforeBreak = TRUE
  SessionFinally = FALSE
  SeedOnlyAtZero = TRUE
  PersistTable = TRUE
  SeedsInParent = TRUE
INIT Init
NEXT Next
INVARIANT NoThreadLeft
