\* mc: C11 round robin: fault at every plug-in invocation
CONSTANTS
  Configs <- Cfg_MC_C11
  BreakOnConverged = TRUE
  CkptBeforeBreak = TRUE
  SessionFinally = TRUE
  SeedOnlyAtZero = TRUE
  PersistTable = TRUE
  SeedsInParent = TRUE
INIT Init
NEXT Next
INVARIANT TypeOK
INVARIANT Aligned
INVARIANT Truthful
INVARIANT BatchesConsecutive
INVARIANT LabelNamesProducer
INVARIANT NoThreadLeft
INVARIANT HistoryIsCompletedPrefix
INVARIANT ObservableIsRef
PROPERTY NextCalibrateWorks
PROPERTY AppendOnly
