------------------------- MODULE RestoreGatesTrace -------------------------
(* events {b, stored, given, ver, code, outcome}: one real restore each; accepted iff the outcome is one the gates allow *)
EXTENDS Naturals, Sequences, TLC, Json, IOUtils

Doc    == JsonDeserialize(IOEnv.TRACE_FILE)
Traces == Doc.traces
VARIABLES tid, l
T == Traces[tid]
Ev == T[l]
SchemaOK(e) == e.b = "json" \/ e.ver = e.code
ModelOK(e)  == e.stored = e.given
Allowed(e) == IF SchemaOK(e) /\ ModelOK(e) THEN {"object"}
              ELSE {x \in {"refused:schema", "refused:model"} : (x = "refused:schema" => ~SchemaOK(e)) /\ (x = "refused:model" => ~ModelOK(e))}
Init == tid \in 1..Len(Traces) /\ l = 1
Step == l <= Len(T) /\ Ev.outcome \in Allowed(Ev) /\ l' = l + 1 /\ UNCHANGED tid
Spec == Init /\ [][Step]_<<tid, l>>
Why == IF l > Len(T) THEN "end"
       ELSE IF Ev.outcome = "object" THEN "a restore handed back an object although a gate fails"
       ELSE "a restore was refused (or failed otherwise) although both gates hold, or names a gate that holds"
Report == /\ (l = Len(T) + 1 => PrintT(<<"OK", tid>>))
          /\ (l <= Len(T) /\ ~ENABLED Step => PrintT(<<"STUCK", tid, l, Why>>))
=============================================================================
