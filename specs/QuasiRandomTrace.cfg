CONSTANTS
  Starts = {}
  BatchSizes = {}
  MaxBatches = 0
  Dims = 0
  CursorRule = "advance"
INIT TInit
NEXT Step
CONSTRAINT Report
