CONSTANTS
  NSessions = 4
  BatchChoices = {0, 1, 2, 3, 4}
  Script <- Script3
  ExitOnFlag = FALSE
  LearnOnTerminal = FALSE
  DrainOnEnd = TRUE
SPECIFICATION Spec
INVARIANT NoPhantomLearn
INVARIANT Attribution
INVARIANT AtMostOnce
INVARIANT LearnExactlyOnce
INVARIANT NoLeftover
INVARIANT TimingIndependent
PROPERTY Termination_
