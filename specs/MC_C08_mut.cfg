CONSTANTS
  D = 2
  E = 1
  V = 2
  Weights = {0, 1, 2}
  KTables <- K1All
  FilterOn = "both"
INIT Init
NEXT Next
INVARIANT MachineIsFold
INVARIANT Repeatable
INVARIANT WeightLinear
INVARIANT ZeroWeightDrops
INVARIANT CoordinatePermutation
