\* mc: C01 thorough: 4 batches, E = 3
CONSTANTS
  Configs <- Cfg_MC_C01_thorough
  BreakOnConverged = TRUE
  CkptBeforeBreak = TRUE
  SessionFinally = TRUE
  SeedOnlyAtZero = TRUE
  PersistTable = TRUE
  SeedsInParent = TRUE
INIT Init
NEXT Next
INVARIANT TypeOK
INVARIANT Aligned
INVARIANT Truthful
INVARIANT BatchesConsecutive
INVARIANT LabelNamesProducer
INVARIANT NoThreadLeft
INVARIANT ObservableIsRef
INVARIANT NoCtorRoot
INVARIANT RoundRobin
