CONSTANTS
  Configs = {}
  BreakOnConverged = TRUE
  CkptBeforeBreak = TRUE
  SessionFinally = TRUE
  SeedOnlyAtZero = TRUE
  PersistTable = TRUE
  SeedsInParent = TRUE
INIT TInit
NEXT TNext
CONSTRAINT Report
POSTCONDITION Post
