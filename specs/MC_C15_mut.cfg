CONSTANTS
  Vals <- V4
  MaxD = 2
  Order = "precision-first"
INIT Init
NEXT Next
INVARIANT MachineMatchesTable
INVARIANT GridLaw
