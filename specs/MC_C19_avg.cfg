CONSTANTS
  NActions = 2
  Alpha <- ASent
  Rewards <- R4
  Losses <- L3
  MaxSteps = 5
  StepRule = "published"
INIT Init
NEXT Next
INVARIANT SampleAverageIsMean
INVARIANT RewardInRange
INVARIANT GreedyNonEmpty
PROPERTY OthersUnchanged
PROPERTY OneAtATime
PROPERTY RefOnlyDecreases
