CONSTANTS
  NSessions = 0
  BatchChoices = {}
  Script = 0
  ExitOnFlag = FALSE
  LearnOnTerminal = FALSE
  DrainOnEnd = TRUE
  RewardTotal = TRUE
INIT TInit
NEXT Step
CONSTRAINT Report
