\* mc: C14: stop exactly at the first batch whose running minimum rounds to zero
CONSTANTS
  Configs <- Cfg_MC_C14
  BreakOnConverged = TRUE
  CkptBeforeBreak = TRUE
  SessionFinally = TRUE
  SeedOnlyAtZero = TRUE
  PersistTable = TRUE
  SeedsInParent = TRUE
INIT Init
NEXT Next
INVARIANT TypeOK
INVARIANT Aligned
INVARIANT Truthful
INVARIANT BatchesConsecutive
INVARIANT LabelNamesProducer
INVARIANT NoThreadLeft
INVARIANT StopExactly
INVARIANT TriggerBatchRecorded
