CONSTANTS
  GSizes = {2, 3, 5}
  Rems = {0, 1}
  Range = 4
  SnapAfterClip = TRUE
  PoolSizes = {1, 2, 3, 4}
  Scores = {0, 1, 2}
  BatchSizes = {1, 2, 3}
INIT Init
NEXT Next
INVARIANT OnGrid
INVARIANT Descent
INVARIANT LowestSelected
INVARIANT SnapFastIsSnap
