--------------------------- MODULE SamplerContract ---------------------------
(***************************************************************************)
(* C03 / C16 - what every built-in sampler owes the calibrator, in grid    *)
(* units (doubled, so that an upper bound lying half a step beyond the     *)
(* last grid element is an integer):                                       *)
(*   a parameter with G grid elements has the admissible coordinates       *)
(*   0, 2, .., 2(G-1); its upper bound is 2(G-1) + rem, rem \in {0, 1}      *)
(*   (rem = 1: the range is not a multiple of the precision).              *)
(*                                                                         *)
(* Contract of sample():  Shape (batch_size rows, one column per           *)
(* parameter), OnGrid (every coordinate admissible), HistoryUntouched.     *)
(* Three refinements that are not trivially on-grid are modelled step by   *)
(* step:                                                                   *)
(*   BestBatch  : pick a parent among the batch_size lowest-loss points,   *)
(*                shock >= 1 coordinates by +-(1..r-1) steps, clip to the  *)
(*                bounds [, snap]                                          *)
(*   Surrogate  : pool -> predictions -> the batch_size lowest -> snap     *)
(*   CubeToGrid : unit-cube point -> box -> snap (Halton, R-sequence, PSO, *)
(*                CORS)                                                    *)
(***************************************************************************)
EXTENDS Integers, Sequences, FiniteSets, TLC

CONSTANTS GSizes,         \* set of grid sizes explored (number of grid elements of the single modelled parameter)
          Rems,           \* subset of {0, 1}
          Range,          \* perturbation_range r (shocks of 1..r-1 steps)
          SnapAfterClip,  \* TRUE: repaired best-batch (result snapped onto the grid); FALSE: pinned (clip only)
          PoolSizes, Scores, BatchSizes   \* surrogate selection: pool sizes, prediction values (ties), batch sizes

Abs(x) == IF x < 0 THEN -x ELSE x
Admissible(G) == {2 * k : k \in 0..G - 1}
Clip(x, lo, hi) == IF x < lo THEN lo ELSE IF x > hi THEN hi ELSE x
(* nearest admissible coordinate (the lower one at a tie: any nearest element satisfies C17) *)
Snap(x, G) == CHOOSE a \in Admissible(G) : \A b \in Admissible(G) : Abs(a - x) <= Abs(b - x)

(* ---- best batch, one coordinate -------------------------------------------------------------------- *)
VARIABLES G, rem, parent, shock, out, phase,
          pool, chosen, bsz
vars == <<G, rem, parent, shock, out, phase, pool, chosen, bsz>>

Init == /\ G \in GSizes /\ rem \in Rems
        /\ parent \in Admissible(G)                       \* history points are on the grid
        /\ shock = 0 /\ out = -1 /\ phase = "bb0"
        /\ pool = <<>> /\ chosen = {} /\ bsz = 0
Shock == /\ phase = "bb0"
         /\ \E k \in 1..Range - 1 : \E sgn \in {-1, 1} : shock' = 2 * k * sgn
         /\ phase' = "bb1" /\ UNCHANGED <<G, rem, parent, out, pool, chosen, bsz>>
ClipStep == /\ phase = "bb1"
            /\ LET c == Clip(parent + shock, 0, 2 * (G - 1) + rem) IN
                 out' = IF SnapAfterClip THEN Snap(c, G) ELSE c
            /\ phase' = "bbdone" /\ UNCHANGED <<G, rem, parent, shock, pool, chosen, bsz>>

(* ---- surrogate selection ----------------------------------------------------------------------------- *)
StartSel == /\ phase = "bb0"
            /\ \E n \in PoolSizes : pool' \in [1..n -> Scores]
            /\ bsz' \in BatchSizes
            /\ phase' = "sel" /\ UNCHANGED <<G, rem, parent, shock, out, chosen>>
(* argsort(predictions)[:batch_size] - ties in any order *)
Select == /\ phase = "sel" /\ bsz <= Len(pool)
          /\ \E S \in SUBSET (1..Len(pool)) :
               /\ Cardinality(S) = bsz
               /\ \A i \in S : \A j \in (1..Len(pool)) \ S : pool[i] <= pool[j]
               /\ chosen' = S
          /\ phase' = "seldone" /\ UNCHANGED <<G, rem, parent, shock, out, pool, bsz>>

Next == Shock \/ ClipStep \/ StartSel \/ Select

(* ---- properties -------------------------------------------------------------------------------------- *)
OnGrid == phase = "bbdone" => out \in Admissible(G)
Descent == phase = "bbdone" => \E sh \in {2 * k * s : k \in 1..Range - 1, s \in {-1, 1}} :
                                   out = (IF SnapAfterClip THEN Snap(Clip(parent + sh, 0, 2 * (G - 1) + rem), G)
                                          ELSE Clip(parent + sh, 0, 2 * (G - 1) + rem))
(* the chosen candidates carry the batch_size smallest predictions (as a multiset) *)
LowestSelected == phase = "seldone" =>
                    \A i \in chosen : Cardinality({j \in 1..Len(pool) : pool[j] < pool[i]}) < bsz

(* ---- operators used by the trace specification (several coordinates) ---------------------------------- *)
(* is `o` a possible result of confining parent p shocked by sh on a coordinate with G elements, upper remainder r *)
(* closed form of Snap on the clipped range 0..2(G-1)+1 (equality with Snap is an invariant of the model-checked configuration) *)
SnapFast(x) == IF x % 2 = 0 THEN x ELSE x - 1
Reach(p, o, Gd, rd, rng) == {sh \in -(rng - 1)..(rng - 1) : SnapFast(Clip(p + 2 * sh, 0, 2 * (Gd - 1) + rd)) = o}
SnapFastIsSnap == \A x \in 0..2 * (G - 1) + 1 : SnapFast(x) = Snap(x, G)
=============================================================================
