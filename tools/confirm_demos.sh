#!/bin/sh
# for every seeded change: its demo must pass on the unchanged tree and fail with the change (scratch worktree, never /repo itself)
wt=/tmp/cd_$$
git -C /repo worktree add -q --detach $wt HEAD || exit 2
trap 'git -C /repo worktree remove --force '$wt' >/dev/null 2>&1' EXIT INT TERM
for d in /verif/seeded/*/; do
  n=$(basename $d)
  [ -n "$1" ] && case "$n" in *$1*) ;; *) continue;; esac
  [ -f $d/demo.py ] || { echo "$n: no demo"; continue; }
  git -C $wt checkout -q -- . ; git -C $wt clean -fdq
  PYTHONPATH=$wt timeout 900 /venv/bin/python $d/demo.py > /tmp/cd.$$.a 2>&1; ra=$?
  git -C $wt apply $d/patch.diff || { echo "$n: patch does not apply"; continue; }
  PYTHONPATH=$wt timeout 900 /venv/bin/python $d/demo.py > /tmp/cd.$$.b 2>&1; rb=$?
  echo "$n: unchanged rc=$ra [$(tail -1 /tmp/cd.$$.a | cut -c1-40)]  with change rc=$rb [$(tail -1 /tmp/cd.$$.b | cut -c1-40)]"
done
rm -f /tmp/cd.$$.a /tmp/cd.$$.b
