#!/venv/bin/python
"""tools/keep_seed.py <Cxx> <slug> <worktree> "<needs>" "<what I ran / result>" [detected_by...]: store a confirmed seeded change under seeded/"""
import json, shutil, subprocess, sys
from pathlib import Path
pid, slug, wt, needs, ran = sys.argv[1:6]
det = sys.argv[6:]
d = Path("/verif/seeded") / f"{pid}-{slug}"
d.mkdir(parents=True, exist_ok=True)
diff = subprocess.run(["git", "-C", wt, "diff", "--", "black_it"], capture_output=True, text=True).stdout
(d / "patch.diff").write_text(diff)
for f in ("demo.py", "notes.md"):
    if (Path(wt) / "_seed" / f).exists():
        shutil.copy(Path(wt) / "_seed" / f, d / f)
meta = {"property": pid, "breaks": open(f"/tmp/prop_{pid}.txt").read().split("\n")[0], "needs_to_manifest": needs,
        "confirmed": ran, "detected_by": det, "source": "independent sub-agent given only the property text and a scratch worktree"}
(d / "meta.json").write_text(json.dumps(meta, indent=1))
print("kept", d)
