#!/bin/sh
# usage: tools/try_patch.sh <patch.diff> <Cxx> [<Cxx>...]   (env TIER=quick|thorough)
# applies a seeded change to /repo, runs the named checks, and always restores /repo afterwards
set -u
patch="$1"; shift
cd /repo || exit 2
if [ -n "$(git status --porcelain --untracked-files=no)" ]; then echo "refusing: /repo has local modifications"; exit 2; fi
git apply "$patch" || { echo "patch does not apply"; exit 2; }
trap 'git -C /repo checkout -- . >/dev/null 2>&1' EXIT INT TERM
cd /verif
for id in "$@"; do
  ./check "$id" --tier "${TIER:-quick}" > /tmp/try_patch.$$.log 2>&1
  rc=$?
  echo "== $id rc=$rc"
  grep -E "^(VIOLATION|KNOWN-FINDING|MACHINERY|  what:|\[C)" /tmp/try_patch.$$.log | head -12
  rm -f /tmp/try_patch.$$.log
done
