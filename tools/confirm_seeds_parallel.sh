#!/bin/sh
# every seeded change, on its own scratch worktree (never /repo itself), against the checks named in its meta.json: exit 1 expected
# usage: tools/confirm_seeds_parallel.sh [jobs] ; output: one line per seed, "NOT DETECTED" lines at the end
cd /verif
jobs=${1:-4}
ls -d seeded/*${SEL:-}*/ | xargs -P "$jobs" -I{} sh -c '
  d={}; n=$(basename $d)
  ids=$(/venv/bin/python -c "import json,sys; print(\" \".join(json.load(open(sys.argv[1]))[\"detected_by\"]))" $d/meta.json)
  out=$(tools/eval_patch.sh /verif/$d/patch.diff $ids 2>&1 | grep -E "^== " | tr "\n" " ")
  case "$out" in *"rc=0"*|*"rc=2"*) echo "$n: $out NOT DETECTED";; *) echo "$n: $out detected";; esac
' > /tmp/confirm_all.txt 2>&1
grep -c " detected" /tmp/confirm_all.txt; grep "NOT DETECTED" /tmp/confirm_all.txt
