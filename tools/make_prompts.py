#!/venv/bin/python
"""tools/make_prompts.py <round>: writes /tmp/prompt<round>_Cxx.txt (property text + names of the changes seeded so far + rules)
and creates the scratch worktrees /tmp/w<round>_Cxx.  The prompt holds nothing else from /verif."""
import json, subprocess, sys
from pathlib import Path

rnd = sys.argv[1]
style = "plain" if "--plain" in sys.argv else "subtle"
ids = [a for a in sys.argv[2:] if not a.startswith("--")] or None
props = [json.loads(l) for l in open("/verif/properties.jsonl")]
man = json.load(open("/verif/MANIFEST.json"))
na = {x["property_id"] for x in man.get("not_applicable", [])}
for p in props:
    pid = p["id"]
    if pid in na or (ids and pid not in ids):
        continue
    wt = f"/tmp/w{rnd}_{pid}"
    subprocess.run(["git", "-C", "/repo", "worktree", "add", "-q", "--detach", wt, "HEAD"], check=False)
    earlier = []
    for d in sorted(Path("/verif/seeded").glob(f"{pid}-*")):
        files = sorted({l.split(" b/")[1].strip() for l in (d / "patch.diff").read_text().splitlines() if l.startswith("diff --git")})
        earlier.append(f"'{d.name[len(pid) + 1:].replace('-', ' ')}' (in {', '.join(files)})")
    STYLE = ("Good candidates are changes that a reviewer would wave through: a tidy-up, a micro-optimisation, a defensive tweak, a numpy idiom with a subtle default, an edit in a helper that the anchored code calls, or two edits at different sites that each look harmless alone. Prefer a change that needs TWO things to coincide."
             if style == "subtle" else
             "This time keep it PLAIN: the kind of slip that happens while editing or merging - a wrong variable of the same type, a swapped pair of arguments, an off-by-one in an index or a range, a condition inverted or weakened, a statement moved one line up or down or into/out of a loop or an if, a missing call (reset, copy, append), a stale value reused, a default changed, a wrong attribute of the right object. One or two lines. It must still slip past the repository's tests and show up only under the specific circumstance you name.")
    text = f"""You are helping to test how robust a verification effort is, by seeding ONE realistic bug into a Python library.

Library: bancaditalia/black-it (toolkit for calibrating agent-based model parameters: samplers, loss functions, schedulers, checkpointing). A scratch git worktree of it is at {wt}. Work ONLY inside {wt}. Do NOT read or modify /repo or /verif (a different team works there; your change must be independent of what they do).

How to run things:
  PYTHONPATH={wt} /venv/bin/python your_script.py          (first check that `import black_it; black_it.__file__` points into {wt})
  cd {wt} && /venv/bin/python -m pytest -q -p no:cacheprovider --ignore=_seed tests/<file>.py
  The list of tests that pass on the unchanged tree is in /root/.vp/BASELINE.json (key "stable_pass"); a number of other tests already fail on the unchanged tree - ignore those. The whole suite takes ~3-4 minutes.

The property your change must BREAK:
---
{pid} - {p['title']}

STATEMENT: {p['statement']}

QUANTIFIER: {p['quantifier']['text']}
---

NOTE: other contributors already seeded these changes for this property: {'; '.join(earlier)}. Yours must be at a code site and with a trigger that none of them used. {STYLE}

Task: make ONE source change under {wt}/black_it/ such that
 (a) the package still imports and runs,
 (b) every test of the repository that passed before still passes (run at least the relevant test files before and after your change, ideally the whole suite once at the end),
 (c) the property above no longer holds, and
 (d) the breakage needs something SPECIFIC to manifest - a particular interleaving, a fault at a particular point, a multi-step sequence of operations, an unusual input or option, or two cooperating sites that each look fine alone. It must NOT be something that any ordinary use would expose at once, and it must stay within the inputs the QUANTIFIER above ranges over (or plainly within the STATEMENT).

Deliver, in the directory {wt}/_seed/ :
  patch.diff   `git -C {wt} diff -- black_it` of your change (only files under black_it/)
  demo.py      a small self-contained program that prints PASS and exits 0 on the UNCHANGED tree, and prints FAIL and exits 1 with your change applied (run as: PYTHONPATH={wt} /venv/bin/python {wt}/_seed/demo.py). Verify both: to test the unchanged tree use `git -C {wt} apply -R _seed/patch.diff`, then `git -C {wt} apply _seed/patch.diff` to put your change back. Do NOT use `git stash` (shared between worktrees). Do not hard-code the worktree path in demo.py assertions.
  notes.md     which clause of the property breaks, what exactly is needed for the bug to manifest, which tests you ran with and without the change and their results.
Leave the worktree with your change applied; do not commit. Keep it small (a few lines). Spend at most ~25 minutes. In your final answer, summarise the change in 3-5 lines.
"""
    Path(f"/tmp/prompt{rnd}_{pid}.txt").write_text(text)
    Path(f"/tmp/prop_{pid}.txt").write_text(f"{pid} - {p['title']}\n\n{p['statement']}\n")
    print(pid, wt, len(earlier), "earlier")
