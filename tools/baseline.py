#!/venv/bin/python
"""Runs the repository's pinned baseline suite with the guard off and compares with /root/.vp/BASELINE.json stable_pass."""
import json, os, subprocess, sys, tempfile, xml.etree.ElementTree as ET
base = json.load(open("/root/.vp/BASELINE.json"))
out = tempfile.mktemp(suffix=".xml")
env = dict(os.environ); env.pop("BLACK_IT_VERIF", None)
cmd = f"cd /repo && /venv/bin/python -m pytest -ra -q -p no:cacheprovider --timeout=900 --continue-on-collection-errors --junitxml={out}"
subprocess.run(cmd, shell=True, env=env, stdout=subprocess.DEVNULL, stderr=subprocess.DEVNULL)
passed = set()
for tc in ET.parse(out).getroot().iter("testcase"):
    if not any(ch.tag in ("failure", "error", "skipped") for ch in tc):
        passed.add(f"{tc.get('classname')}::{tc.get('name')}")
missing = [t for t in base["stable_pass"] if t not in passed]
print(f"baseline: {len(base['stable_pass']) - len(missing)}/{len(base['stable_pass'])} stable tests pass")
for m in missing:
    print("  MISSING", m)
os.remove(out)
sys.exit(1 if missing else 0)
