#!/bin/sh
# every property-preserving change of neutral/ must leave every named check silent (exit 0); scratch worktrees only
cd /verif
bad=0
while read n ids; do
  [ -n "$1" ] && case "$n" in *$1*) ;; *) continue;; esac
  out=$(tools/eval_patch.sh /verif/neutral/$n.diff $ids 2>&1)
  echo "$out" | grep -E "^== " | tr '\n' ' '; echo " <- $n"
  echo "$out" | grep -qE "rc=[12]" && { bad=1; echo "$out" | grep -E "VIOLATION|what:|MACHINERY" | head -5; }
done < neutral/CHECKS
exit $bad
