#!/bin/sh
# usage: tools/sweep.sh <first seed> <last seed> [ids...]   - runs every quick check under several seeds, prints only problems
first=$1; last=$2; shift 2
ids="$*"; [ -z "$ids" ] && ids=$(/venv/bin/python -c "import json;print(' '.join(c['property_id'] for c in json.load(open('MANIFEST.json'))['checks']))")
for s in $(seq $first $last); do
  for id in $ids; do
    VERIF_SEED=$s ./check $id --tier quick > /tmp/sweep.$$.log 2>&1; rc=$?
    if [ $rc -ne 0 ]; then echo "SEED $s $id rc=$rc"; grep -E "^(VIOLATION|MACHINERY|  what)" /tmp/sweep.$$.log | head -5; fi
    tail -1 /tmp/sweep.$$.log | sed "s/^/seed $s: /"
  done
done
rm -f /tmp/sweep.$$.log
