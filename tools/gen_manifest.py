#!/venv/bin/python
"""Regenerates /verif/MANIFEST.json from the table below (single source of truth for the interface)."""
import json
from pathlib import Path

VERIF = Path(__file__).resolve().parent.parent
BASELINE = ("cd /repo && env -u BLACK_IT_VERIF /venv/bin/python -m pytest -ra -q -p no:cacheprovider --timeout=900 "
            "--continue-on-collection-errors")

# id -> (engine spec modules, technique, level text, level note, design ref)
CHECKS = {
    "C17": (["GridSnap.tla", "GridSnapTrace.tla"],
            "TLC exhaustive model of get_closest vs IsNearest + TLC trace validation of real get_closest/digitize_data calls",
            "TLC explores the step-by-step model of the snapping algorithm over every sorted grid of 1-4 (thorough: 5) elements of a "
            "doubled lattice and 20 values (mid-points, end-points, out of range) and checks IsNearest/Idempotent in every final "
            "state; a design mutant must be refuted. The same lattice (3-5 exact dyadic scalings), random grids up to 200 "
            "elements, digitize_data shapes and decimal np.arange grids are executed on the real functions and every recorded "
            "call is validated by TLC against the property-level operator IsNearest (either neighbour accepted at a tie).",
            "Trusted: TLC, the JSON projection (exact integer scaling of dyadic floats, checked for exactness; exact-Fraction distance "
            "ranks with 1e-12 classes for decimal grids). Values are finite; NaN is outside the statement.",
            "DESIGN.md §4 C17"),
}

NOT_APPLICABLE = {
    "C07": "numeric equality of real-valued loss definitions (sqrt, FFT, KDE, 18 moments): no state machine for TLC to explore; "
           "TLC has 32-bit integers and no reals, a transcription would test the TLA+ arithmetic rather than the losses (DESIGN.md §5)",
    "C20": "HP-filter optimality / derived filters / finiteness of the moment summary are floating-point linear-algebra identities "
           "over series of length up to 2000: nothing for a model checker to enumerate (DESIGN.md §5)",
}

ALL = [f"C{i:02d}" for i in range(1, 21)]


def main() -> None:
    checks = []
    engines = {}
    for pid in ALL:
        if pid not in CHECKS:
            continue
        mods, technique, text, note, ref = CHECKS[pid]
        checks.append({
            "property_id": pid,
            "quick_cmd": f"./check {pid} --tier quick",
            "thorough_cmd": f"./check {pid} --tier thorough",
            "evidence_file": f"evidence/{pid}.json",
            "replay_cmd_template": f"./check {pid} --replay {{path}}",
            "engine": mods[0],
            "level_claimed": {"category": "model_checking", "text": text, "design_ref": ref},
            "level_note": note,
            "technique": technique,
        })
        for m in mods:
            engines.setdefault(m, []).append(pid)
    na = [{"property_id": p, "reason": r} for p, r in NOT_APPLICABLE.items()]
    for pid in ALL:
        if pid not in CHECKS and pid not in NOT_APPLICABLE:
            na.append({"property_id": pid, "reason": "check not built yet in this round (planned, see DESIGN.md §4); not claimed until its "
                                                      "specification and conformance harness are committed"})
    man = {
        "version": 1,
        "setup_cmd": "cd /verif && ./check setup",
        "hooks": {
            "guard": "BLACK_IT_VERIF",
            "enable": "no source hooks: the harness supplies recording plug-ins (model, loss, samplers, agent, queues) and sets "
                      "BLACK_IT_VERIF=1 only as a marker; checks import black_it from /repo's working tree (VERIF_REPO overrides)",
            "baseline_off_cmd": BASELINE,
            "source_commits": [],
            "add_only": True,
        },
        "engines": [{"name": m, "path": f"specs/{m}", "serves_properties": sorted(set(p)),
                     "kind_free_text": "TLA+ specification checked with TLC (design) / used as trace-validation oracle"}
                    for m, p in sorted(engines.items())],
        "checks": checks,
        "not_applicable": sorted(na, key=lambda x: x["property_id"]),
        "notes": "All checks: ./check <id> --tier quick|thorough, run by /venv/bin/python, TLC 1.8 via java. Exit 0 held, 1 violation "
                 "(VIOLATION line + replay file), 2 machinery failure. Known findings: known_findings.json.",
    }
    (VERIF / "MANIFEST.json").write_text(json.dumps(man, indent=1) + "\n")
    import jsonschema

    jsonschema.validate(man, json.loads(Path("/root/.vp/MANIFEST.schema.json").read_text()))
    print(f"MANIFEST.json written: {len(checks)} checks, {len(na)} not_applicable")


if __name__ == "__main__":
    main()
