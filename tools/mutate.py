#!/venv/bin/python
"""tools/mutate.py gen|tests|checks|report  - mechanical one-token mutants of the anchored code, used to measure the checks.

gen     writes /tmp/mut/<id>.diff (+ index.json) : one-token mutations (comparison / arithmetic / boolean operators, integer
        literals +-1, True/False, dropped `not`) at the anchored sites, sampled per file with a fixed seed
tests   runs the repository's own tests that cover the file (stable_pass ones only) on a scratch worktree; survivors are kept
checks  runs the checks mapped to the file on every survivor (scratch worktree, VERIF_REPO); primary set first, the secondary set
        only when the primary one is silent
report  prints the table: killed by the repository's tests / detected by which check / silent (to be triaged by hand:
        equivalent or a miss)

Nothing here touches /repo's working tree; all worktrees live under /tmp and are removed.
"""
import io
import json
import random
import subprocess
import sys
import tokenize
from concurrent.futures import ThreadPoolExecutor
from pathlib import Path

import os

OUT = Path(os.environ.get("MUT_OUT", "/tmp/mut"))
REPO = "/repo"
# file -> (line ranges or None = whole file, test paths, primary checks, secondary checks, sample size)
TARGETS = {
    "black_it/calibrator.py": ([(150, 260), (330, 520)], ["tests/test_calibrator.py"], ["C02", "C14"], ["C09", "C11", "C04", "C18", "C01"], 40),
    "black_it/schedulers/round_robin.py": (None, ["tests/test_calibrator.py"], ["C09"], ["C11"], 6),
    "black_it/schedulers/base.py": ([(40, 110)], ["tests/test_calibrator.py"], ["C11", "C09"], ["C01"], 8),
    "black_it/schedulers/rl/rl_scheduler.py": ([(45, 175)], [], ["C10", "C09"], ["C11"], 25),
    "black_it/schedulers/rl/envs/base.py": ([(40, 90)], [], ["C10", "C19"], [], 10),
    "black_it/schedulers/rl/envs/mab.py": (None, [], ["C19", "C10"], [], 8),
    "black_it/schedulers/rl/agents/epsilon_greedy.py": ([(30, 95)], [], ["C19"], ["C10"], 15),
    "black_it/samplers/base.py": ([(60, 150)], ["tests/test_samplers/test_base.py"], ["C12"], ["C03"], 15),
    "black_it/samplers/halton.py": ([(40, 230)], ["tests/test_samplers/test_halton.py"], ["C13"], ["C01"], 25),
    "black_it/samplers/r_sequence.py": ([(40, 145)], ["tests/test_samplers/test_rseq.py"], ["C13"], [], 15),
    "black_it/samplers/best_batch.py": ([(85, 160)], ["tests/test_samplers/test_best_batch.py"], ["C16"], ["C03"], 15),
    "black_it/samplers/surrogate.py": ([(80, 135)], ["tests/test_samplers/test_random_forest.py", "tests/test_samplers/test_gaussian_process.py"], ["C16"], ["C03"], 10),
    "black_it/samplers/random_uniform.py": (None, ["tests/test_samplers/test_random_uniform.py"], ["C03"], [], 4),
    "black_it/samplers/xgboost.py": ([(100, 135)], [], ["C16"], ["C02"], 6),
    "black_it/utils/base.py": ([(60, 110)], ["tests/test_utils/test_base.py"], ["C17"], ["C03"], 15),
    "black_it/search_space.py": ([(60, 150)], ["tests/test_search_space.py"], ["C15"], ["C03"], 20),
    "black_it/utils/json_pandas_checkpointing.py": ([(40, 260)], ["tests/test_utils/test_pandas_json_checkpointing.py", "tests/test_calibrator.py"], ["C04"], ["C06", "C05"], 25),
    "black_it/utils/sqlite3_checkpointing.py": ([(195, 400)], ["tests/test_utils/test_sqlite3_checkpointing.py"], ["C04", "C06"], [], 15),
    "black_it/loss_functions/base.py": ([(50, 145)], ["tests/test_losses"], ["C08"], [], 15),
    "black_it/plot/plot_results.py": ([(35, 100)], [], ["C18"], [], 8),
    "black_it/utils/seedable.py": ([(40, 100)], ["tests/test_calibrator.py", "tests/test_utils/test_seedable.py"], ["C01"], ["C05"], 6),
}
OPS = {"<": ["<=", ">"], "<=": ["<", ">="], ">": [">=", "<"], ">=": [">", "<="], "==": ["!="], "!=": ["=="],
       "+": ["-"], "-": ["+"], "*": ["+"], "//": ["*"], "%": ["//"], "+=": ["-=", "="], "-=": ["+="],
       "and": ["or"], "or": ["and"], "True": ["False"], "False": ["True"], "is": ["is not"], "min": ["max"], "max": ["min"]}


def in_ranges(line: int, ranges) -> bool:
    return ranges is None or any(a <= line <= b for a, b in ranges)


def candidates(path: str, ranges):
    src = Path(REPO, path).read_text()
    toks = list(tokenize.generate_tokens(io.StringIO(src).readline))
    lines = src.splitlines(keepends=True)
    out = []
    depth_doc = False
    for i, t in enumerate(toks):
        line = t.start[0]
        if not in_ranges(line, ranges) or t.type in (tokenize.STRING, tokenize.COMMENT) or line > len(lines):
            continue
        text = t.string
        # skip annotations / decorators / imports / raise-message lines cheaply
        ltxt = lines[line - 1].strip()
        if ltxt.startswith(("import ", "from ", "@", "msg =", '"""', "def ", "class ", "print(", "f\"", "\"")) or "print(" in ltxt:
            continue
        if any(w in ltxt for w in ("elapsed", "avg_dist", "min_dist", "t_start", "t_eval", "t_end", "warnings.warn")):
            continue       # console output only
        reps = []
        if t.type == tokenize.OP and text in OPS:
            if text in ("-", "+") and toks[i - 1].type == tokenize.OP and toks[i - 1].string in ("(", ",", "=", "[", "return"):
                continue   # unary sign
            if text == "*" and (toks[i - 1].string in ("(", ",") or toks[i + 1].string in (",", ")")):
                continue   # star-args
            reps = OPS[text]
        elif t.type == tokenize.NAME and text in OPS:
            if text == "is" and toks[i + 1].string == "not":
                continue
            reps = OPS[text]
        elif t.type == tokenize.NAME and text == "not":
            reps = [""]
        elif t.type == tokenize.NUMBER and text.isdigit() and int(text) < 100:
            reps = [str(int(text) + 1)] + ([str(int(text) - 1)] if int(text) > 0 else [])
        for r in reps:
            out.append((line, t.start[1], t.end[1], text, r))
    return src, lines, out


def gen():
    OUT.mkdir(exist_ok=True)
    for f in OUT.glob("*.diff"):
        f.unlink()
    rng = random.Random(int(os.environ.get("MUT_SEED", "20260927")))
    skip = set()
    if os.environ.get("MUT_SKIP"):
        skip = {(m["file"], m["line"], m["old"], m["new"]) for m in json.loads(Path(os.environ["MUT_SKIP"]).read_text())}
    index = []
    n = 0
    for path, (ranges, tests, prim, sec, k) in TARGETS.items():
        src, lines, cands = candidates(path, ranges)
        rng.shuffle(cands)
        seen_lines = {}
        picked = []
        for c in cands:
            if seen_lines.get(c[0], 0) >= 2 or (path, c[0], c[3], c[4]) in skip:
                continue
            seen_lines[c[0]] = seen_lines.get(c[0], 0) + 1
            picked.append(c)
            if len(picked) >= k:
                break
        for line, a, b, old, new in picked:
            n += 1
            mid = f"M{n:03d}"
            ml = list(lines)
            ml[line - 1] = ml[line - 1][:a] + new + ml[line - 1][b:]
            mutated = "".join(ml)
            try:
                compile(mutated, path, "exec")
            except SyntaxError:
                continue
            import difflib

            diff = "".join(difflib.unified_diff(lines, ml, f"a/{path}", f"b/{path}"))
            (OUT / f"{mid}.diff").write_text(f"diff --git a/{path} b/{path}\n" + diff)
            index.append({"id": mid, "file": path, "line": line, "old": old, "new": new, "src": lines[line - 1].strip()[:120],
                          "tests": tests, "primary": prim, "secondary": sec})
    (OUT / "index.json").write_text(json.dumps(index, indent=1))
    print(len(index), "mutants")


def _junit_id(nodeid: str) -> str:
    parts = nodeid.split("::")
    mod = parts[0][:-3].replace("/", ".")
    return f"{mod}.{parts[1]}::{parts[2]}" if len(parts) == 3 else f"{mod}::{parts[-1]}"


def _wt(tag: str) -> str:
    wt = f"/tmp/mutwt_{tag}"
    subprocess.run(["git", "-C", REPO, "worktree", "remove", "--force", wt], capture_output=True)
    subprocess.run(["git", "-C", REPO, "worktree", "add", "-q", "--detach", wt, "HEAD"], check=True)
    return wt


def tests():
    index = json.loads((OUT / "index.json").read_text())
    stable = set(json.load(open("/root/.vp/BASELINE.json"))["stable_pass"])

    def one(args):
        slot, items = args
        wt = _wt(f"t{slot}")
        try:
            for m in items:
                if not m["tests"]:
                    m["tests_result"] = "no-tests"
                    continue
                subprocess.run(["git", "-C", wt, "checkout", "-q", "--", "."])
                if subprocess.run(["git", "-C", wt, "apply", str(OUT / f"{m['id']}.diff")]).returncode:
                    m["tests_result"] = "patch-failed"
                    continue
                p = subprocess.run(["/venv/bin/python", "-m", "pytest", "-q", "-p", "no:cacheprovider", "--timeout=600", "-rfE", *m["tests"]],
                                   cwd=wt, capture_output=True, text=True, env={"PATH": "/venv/bin:/usr/bin:/bin", "HOME": "/root"})
                failed = [l.split(" ")[1].split(" - ")[0] for l in p.stdout.splitlines() if l.startswith("FAILED ")]
                failed += [l.split(" ")[1].split(" - ")[0] for l in p.stdout.splitlines() if l.startswith("ERROR ")]
                killed = [f for f in failed if _junit_id(f) in stable]
                m["tests_result"] = "killed" if killed else "survived"
                m["killed_by"] = killed[:3]
                print(m["id"], m["file"], m["line"], m["old"], "->", m["new"], m["tests_result"], flush=True)
        finally:
            subprocess.run(["git", "-C", REPO, "worktree", "remove", "--force", wt], capture_output=True)
        return items
    slots = 6
    parts = [(i, index[i::slots]) for i in range(slots)]
    with ThreadPoolExecutor(max_workers=slots) as ex:
        res = list(ex.map(one, parts))
    flat = sorted([m for part in res for m in part], key=lambda m: m["id"])
    (OUT / "index.json").write_text(json.dumps(flat, indent=1))
    print({k: sum(1 for m in flat if m.get("tests_result") == k) for k in ("killed", "survived", "no-tests", "patch-failed")})


def checks():
    index = json.loads((OUT / "index.json").read_text())
    todo = [m for m in index if m.get("tests_result") in ("survived", "no-tests") and "detected_by" not in m]

    def run_ids(m, ids):
        p = subprocess.run(["/verif/tools/eval_patch.sh", str(OUT / f"{m['id']}.diff"), *ids], capture_output=True, text=True, cwd="/verif")
        res = {}
        for l in p.stdout.splitlines():
            if l.startswith("== "):
                pid, rc = l[3:].split(" rc=")
                res[pid] = int(rc)
        return res

    def one(m):
        res = run_ids(m, m["primary"])
        if not any(rc == 1 for rc in res.values()) and m["secondary"]:
            res.update(run_ids(m, m["secondary"]))
        m["check_rc"] = res
        m["detected_by"] = [k for k, rc in res.items() if rc == 1]
        print(m["id"], m["file"], m["line"], m["old"], "->", m["new"], "|", m["src"][:70], "|", res, flush=True)
        return m
    with ThreadPoolExecutor(max_workers=int(sys.argv[2]) if len(sys.argv) > 2 else 4) as ex:
        list(ex.map(one, todo))
    (OUT / "index.json").write_text(json.dumps(index, indent=1))


def report():
    index = json.loads((OUT / "index.json").read_text())
    for m in index:
        st = m.get("tests_result", "?")
        det = ",".join(m.get("detected_by", [])) if "detected_by" in m else "-"
        flag = "SILENT" if st in ("survived", "no-tests") and "detected_by" in m and not m["detected_by"] else ""
        print(f"{m['id']} {m['file'].split('/')[-1]}:{m['line']} {m['old']!r}->{m['new']!r} tests={st} checks={det} {flag} | {m['src'][:90]}")
    surv = [m for m in index if m.get("tests_result") in ("survived", "no-tests") and "detected_by" in m]
    print(len(index), "mutants;", sum(1 for m in index if m.get("tests_result") == "killed"), "killed by the repository's tests;",
          len(surv), "reached the checks;", sum(1 for m in surv if m["detected_by"]), "detected;", sum(1 for m in surv if not m["detected_by"]), "silent")


if __name__ == "__main__":
    {"gen": gen, "tests": tests, "checks": checks, "report": report}[sys.argv[1]]()
