#!/venv/bin/python
"""prints the markdown table of DESIGN.md 9.6 from seeded/*/meta.json"""
import json
from pathlib import Path

rows = []
for d in sorted(p for p in Path("/verif/seeded").iterdir() if p.is_dir()):
    m = json.loads((d / "meta.json").read_text())
    c = m["confirmed"].lower()
    status = "strengthened" if ("missed" in c or "after " in c or "strengthen" in c or "once " in c) else "as built"
    needs = m["needs_to_manifest"].replace("|", "/")
    rows.append(f"| `{d.name}` | {needs[:230]} | {', '.join(m.get('detected_by', []))} | {status} |")
print("| seed | needs | caught by | status |\n|------|-------|-----------|--------|")
print("\n".join(rows))
print(f"\n({len(rows)} seeded changes)")
