#!/venv/bin/python
"""tools/selftest_binding.py - demonstrates that the trace specifications bind: real executions of the unchanged tree are accepted,
and the same traces with ONE recorded field corrupted (or one event removed) are rejected by TLC.

For every trace specification: a handful of real traces -> all accepted; then every listed corruption of the first suitable trace ->
rejected.  Prints one line per corruption; exit 0 iff every original is accepted and every corruption is rejected.
"""
import copy
import json
import random
import sys
from pathlib import Path

sys.path.insert(0, str(Path(__file__).resolve().parent.parent))
from harness import common  # noqa: E402

common.use_repo()
from harness import c10, c12, calcfg, calcheck, tlc  # noqa: E402
from harness.common import quiet  # noqa: E402

bad = 0


def expect(label: str, module: str, cfg: str, trace, want_accept: bool, wrap=lambda t: {"traces": [t]}):
    global bad
    res = tlc.validate(module, cfg, wrap(trace))
    ok = (1 in res["accepted"]) == want_accept
    why = res["rejected"].get(1, {}).get("why", "") if not want_accept else ""
    print(f"{'ok ' if ok else 'BAD'} {module:22s} {label:58s} -> {'accepted' if 1 in res['accepted'] else 'rejected'} {str(why)[:90]}")
    if not ok:
        bad += 1


def calibration():
    base = calcfg.config("Gen_C02")
    rng = random.Random(5)
    ops = [o for o in calcheck.maximal(calcheck.tlc_scripts("Gen_C02")) if not any(x[0] == "fault" for x in o) and sum(1 for x in o if x[0] == "call") >= 2]
    sc = calcheck.to_script(rng.choice(ops), base, seed=31337, saving=True)
    tr = calcheck.execute([sc], procs=1)[0]
    wrap = lambda t: {"traces": [{"cfg": t["cfg"], "ev": t["ev"]}]}  # noqa: E731
    expect("original execution", "CalibrationTrace", "CalibrationTrace.cfg", tr, True, wrap)

    def mut(label, f):
        t = copy.deepcopy(tr)
        if f(t) is not False:
            expect(label, "CalibrationTrace", "CalibrationTrace.cfg", t, False, wrap)
        else:
            print(f"--  CalibrationTrace       {label:58s} (no such event in this trace)")

    def first(t, kind):
        for i, e in enumerate(t["ev"]):
            if e["e"] == kind:
                return i
        return None

    def m_model(t):
        i = first(t, "model")
        if i is None:
            return False
        t["ev"][i]["pid"] += 1
    mut("model run on another vector (pid + 1)", m_model)

    def m_seed(t):
        i = first(t, "model")
        if i is None:
            return False
        t["ev"][i]["sp"] += 1
    mut("model run with another seed (position + 1)", m_seed)

    def m_drop(t):
        i = first(t, "sample")
        del t["ev"][i]
    mut("one sample() call not recorded (event removed)", m_drop)

    def m_cls(t):
        i = first(t, "sample")
        t["ev"][i]["cls"] = "Z"
    mut("batch drawn by another sampler class", m_cls)

    def m_row(t):
        for e in t["ev"]:
            if e["e"] == "idle" and e["rows"]:
                e["rows"][-1]["loss"] += 1
                return None
        return False
    mut("last stored row holds another loss", m_row)

    def m_ret(t):
        i = first(t, "ret")
        if i is None or len(t["ev"][i]["pairs"]) < 2:
            return False
        t["ev"][i]["pairs"] = t["ev"][i]["pairs"][:-1]
    mut("returned arrays one pair short", m_ret)

    def m_disk(t):
        i = first(t, "disk")
        if i is None:
            return False
        t["ev"][i]["bi"] += 1
    mut("checkpoint on disk one batch ahead", m_disk)

    def m_threads(t):
        i = first(t, "idle")
        t["ev"][i]["threads"] = 1
    mut("a thread left behind after the call", m_threads)


def rl_exchange():
    rng = random.Random(7)
    with quiet():
        r = c10.run_controlled([2, 2], [8, 4, 4, 2, 2], [0, 1, 0], [], agent_kind="scripted", seed=3, rng=rng)
    ev = [c10._tl(e) for e in r["ev"]]  # noqa: SLF001
    wrap = lambda t: {"traces": [{"ev": t, "script": [0, 1, 0], "ref": [-1]}]}  # noqa: E731
    expect("original execution", "RLExchangeTrace", "RLExchangeTrace.cfg", ev, True, wrap)

    def idx(kind, nth=0):
        return [i for i, e in enumerate(ev) if e["e"] == kind][nth]

    t = copy.deepcopy(ev)
    t[idx("learn")]["a"] = 2
    expect("learn() credited to another action", "RLExchangeTrace", "RLExchangeTrace.cfg", t, False, wrap)
    t = copy.deepcopy(ev)
    t[idx("learn")]["r"] += 1
    expect("learn() with another reward", "RLExchangeTrace", "RLExchangeTrace.cfg", t, False, wrap)
    t = copy.deepcopy(ev)
    del t[idx("get")]
    expect("a get() of the scheduler not recorded", "RLExchangeTrace", "RLExchangeTrace.cfg", t, False, wrap)
    t = copy.deepcopy(ev)
    t[idx("get")]["sampler"] = 2
    expect("scheduler ran another sampler than chosen", "RLExchangeTrace", "RLExchangeTrace.cfg", t, False, wrap)
    t = copy.deepcopy(ev)
    t[idx("out")]["best"] += 1
    expect("outcome message carries another best loss", "RLExchangeTrace", "RLExchangeTrace.cfg", t, False, wrap)
    t = copy.deepcopy(ev)
    t[idx("idle")]["actq"] = 1
    expect("an action left in the queue after the session", "RLExchangeTrace", "RLExchangeTrace.cfg", t, False, wrap)
    i, j = idx("put", 1), idx("policy", 1)
    t = copy.deepcopy(ev)
    t[i], t[j] = t[j], t[i]
    expect("put recorded before the policy() that chose it", "RLExchangeTrace", "RLExchangeTrace.cfg", t, False, wrap)


def dedup():
    with quiet():
        tr = c12.run_case([1, 2], 2, 3, [1, 3, 2, 4, 5, 5, 5, 5, 5, 5], "1d")
    expect("original execution", "DedupTrace", "DedupTrace.cfg", tr, True)
    t = copy.deepcopy(tr)
    d = [e for e in t if e["e"] == "draw"]
    if len(d) > 1:
        d[1]["n"] += 1
        d[1]["pts"] = d[1]["pts"] + [5]
        expect("one point too many asked in a redraw", "DedupTrace", "DedupTrace.cfg", t, False)
    t = copy.deepcopy(tr)
    t[-1]["pts"][0] = 5
    expect("a non-repeat altered in the returned batch", "DedupTrace", "DedupTrace.cfg", t, False)
    t = copy.deepcopy(tr)
    t[-1]["pts"] = t[-1]["pts"][:-1]
    expect("returned batch one row short", "DedupTrace", "DedupTrace.cfg", t, False)


def checkpoint():
    import shutil
    import tempfile

    from harness import ckpt

    known = ckpt.Known(["A", "B"], "json")
    folder = tempfile.mkdtemp(prefix="verif-self-")
    try:
        with quiet():
            ckpt.save(folder, "A", 2, "json")
            ckpt.save(folder, "A", 3, "json")
            ld = ckpt.load(folder, "json", known, [("A", 3), ("A", 2)])
    finally:
        shutil.rmtree(folder, ignore_errors=True)
    ev = [{"e": "save", "b": "json", "run": "A", "rows": 2}, {"e": "save", "b": "json", "run": "A", "rows": 3},
          {"e": "load", "b": "json", "err": ld["err"], "comp": ld["comp"]}]
    wrap = lambda t: {"traces": [{"ev": t}]}  # noqa: E731
    expect("original save/save/load", "CheckpointTrace", "CheckpointTrace.cfg", ev, True, wrap)
    t = copy.deepcopy(ev)
    t[2]["comp"]["params"] = ["A", 2]
    expect("counters of the previous checkpoint read back", "CheckpointTrace", "CheckpointTrace.cfg", t, False, wrap)
    t = copy.deepcopy(ev)
    t[2]["comp"]["h5"] = t[2]["comp"]["h5"][:-1]
    expect("series one row short", "CheckpointTrace", "CheckpointTrace.cfg", t, False, wrap)
    t = copy.deepcopy(ev)
    t[1]["rows"] = 4
    expect("a save of another state recorded", "CheckpointTrace", "CheckpointTrace.cfg", t, False, wrap)


def swarm_binding():
    import random

    from harness import swarm

    rng = random.Random(11)
    tr = None
    while tr is None:
        evs, _meta = swarm.swarm_trace(rng, direct=False)
        steps = [i for i, e in enumerate(evs) if e["e"] == "step" and len(e["hist"]) > e["np"] and min(e["best"]) < 99]
        if len(steps) >= 2 and not any(e["e"] == "reset" for e in evs):
            tr = [{k: v for k, v in e.items() if k != "histsame"} for e in evs]
    expect("original execution", "SwarmTrace", "SwarmTrace.cfg", tr, True)
    i = steps[0]
    t = copy.deepcopy(tr)
    t[i]["best"][0] = t[i]["best"][0] + 1
    expect("one best loss of the table altered", "SwarmTrace", "SwarmTrace.cfg", t, False)
    t = copy.deepcopy(tr)
    t[i]["start"] -= 1
    expect("window start one row early", "SwarmTrace", "SwarmTrace.cfg", t, False)
    if tr[i]["np"] > 1:
        t = copy.deepcopy(tr)
        t[i]["g"] = t[i]["g"] % t[i]["np"] + 1
        expect("another particle recorded as global best", "SwarmTrace", "SwarmTrace.cfg", t, False)
    t = copy.deepcopy(tr)
    t[steps[1]]["hist"][0] = (t[steps[1]]["hist"][0] + 1) % 5
    expect("history shown is not an extension of the previous one", "SwarmTrace", "SwarmTrace.cfg", t, False)
    t = copy.deepcopy(tr)
    del t[0]
    expect("set-up event removed", "SwarmTrace", "SwarmTrace.cfg", t, False)


if __name__ == "__main__":
    swarm_binding()
    calibration()
    rl_exchange()
    dedup()
    checkpoint()
    print("binding self-test:", "all as expected" if not bad else f"{bad} unexpected verdict(s)")
    common.shutdown_loky()
    sys.stdout.flush()
    import os

    os._exit(1 if bad else 0)
