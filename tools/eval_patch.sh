#!/bin/sh
# usage: tools/eval_patch.sh <patch.diff> <Cxx> [...]: applies the patch to a scratch worktree of /repo (never to /repo itself) and runs the checks on it
patch="$1"; shift
wt=/tmp/ev_$$
git -C /repo worktree add -q --detach $wt HEAD || exit 2
trap 'git -C /repo worktree remove --force '$wt' >/dev/null 2>&1; rm -rf /tmp/verif-eval/'$(basename $wt)'' EXIT INT TERM
git -C $wt apply "$patch" || { echo "patch does not apply"; exit 2; }
cd /verif
for id in "$@"; do
  VERIF_REPO=$wt ./check "$id" --tier "${TIER:-quick}" > /tmp/ev.$$.log 2>&1; rc=$?
  echo "== $id rc=$rc"; grep -E "^(VIOLATION|MACHINERY|  what:|\[C)" /tmp/ev.$$.log | cut -c1-230 | head -7; rm -f /tmp/ev.$$.log
done
