#!/venv/bin/python
"""Apply every seeded change to /repo (git apply), run the checks named in its meta.json, expect exit 1, and restore /repo.
usage: tools/confirm_seeds.py [name-substring ...]"""
import json, subprocess, sys
from pathlib import Path
sel = sys.argv[1:]
bad = 0
for d in sorted(Path("/verif/seeded").iterdir()):
    if not (d / "patch.diff").exists() or (sel and not any(x in d.name for x in sel)):
        continue
    meta = json.loads((d / "meta.json").read_text())
    if subprocess.run(["git", "-C", "/repo", "status", "--porcelain", "--untracked-files=no"], capture_output=True, text=True).stdout.strip():
        print("refusing: /repo has local modifications"); sys.exit(2)
    if subprocess.run(["git", "-C", "/repo", "apply", str(d / "patch.diff")]).returncode != 0:
        print(f"{d.name}: patch does not apply"); bad += 1; continue
    try:
        res = {}
        for pid in meta["detected_by"]:
            p = subprocess.run(["./check", pid, "--tier", "quick"], cwd="/verif", capture_output=True, text=True)
            res[pid] = p.returncode
        ok = all(rc == 1 for rc in res.values())
        print(f"{d.name}: {res} {'DETECTED' if ok else 'NOT DETECTED'}", flush=True)
        bad += 0 if ok else 1
    finally:
        subprocess.run(["git", "-C", "/repo", "checkout", "--", "."])
sys.exit(1 if bad else 0)
